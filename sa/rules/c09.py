"""C09 - a run's results depend only on its inputs, not on leftovers."""

from __future__ import annotations

import ast

from ..cfg import CFG
from ..core import delayed_task_of, callee_is, AnalysisError, const_value
from ..defuse import DefUse, Terms, show, walk_term
from ..defuse import key as tkey
from ..effects import (WriterEvents, fs_enumerations, open_calls,
                       pandas_append_writes)

EXPLANATION = (
    "Static effect and path analysis over everything reachable (call graph) "
    "from mokapot.main, brew, assign_confidence and brew_rollup.main. (a) "
    "consumed = produced: no directory enumeration (glob/iterdir/listdir) is "
    "reachable from assign_confidence; in create_sorted_file_iterator the "
    "list handed to merge_sort is the very list whose elements are the "
    "write paths of the chunk tasks; brew_rollup's globs only discover user "
    "input and filter out its own file_root outputs. (b) truncating writes: "
    "no append/update-mode open() is reachable from the entry points; every "
    "writer that receives append_data is initialize()d (truncated) on every "
    "path first - level files unconditionally, result files unless the "
    "documented append flag is set - or is used through write()/with. (c) "
    "clean-up pairing: chunk files are unlinked in a finally that covers "
    "the consumer; every level path handed to _assign_confidence is "
    "unlinked on every normal path of its loop body; the level files "
    "created are a subset of those handed over. (d) the user's input is "
    "only replaced by a file this run opened in truncating mode. Also: every write() of the writer hierarchy starts from an empty file (shared with C13). "
    "NOT "
    "decided: the outcome of a crash at a particular system call.")
TECHNIQUE = ("effect scan + call-graph reachability + CFG must-pass-through "
             "/ finally pairing + writer typestate + def-use term equality")

ENTRY = ["mokapot.mokapot.main", "mokapot.brew.brew",
         "mokapot.confidence.assign_confidence", "mokapot.brew_rollup.main"]
# enumerations that are the tool's contract (one line of reason each)
ENUM_ALLOWED = {
    "mokapot.brew_rollup.do_rollup":
        "discovering the user's result files to roll up is the tool's "
        "contract; its own outputs are excluded by the file_root filter "
        "(checked below)",
}
# writers whose files are created by the caller (one line of reason each)
INIT_BY_CALLER = {
    "mokapot.confidence_writer.write_confidences":
        "result files are created/truncated by assign_confidence via "
        "initialize() (checked at that site); sqlite tables pre-exist",
}


def run(ctx):
    prog = ctx.prog
    reach_all = prog.reachable(ENTRY)
    reach_conf = prog.reachable(["mokapot.confidence.assign_confidence"])
    # ---------------------------------------------------------------- a
    total_enum = 0

    def helper_of_allowed(q, seen=()):
        """is q only ever called (transitively) from accepted functions?"""
        callers = {c.qual for c, _n, _k in prog.callers_of(q)}
        if not callers or q in seen:
            return None
        owners = set()
        for c in callers:
            if c in ENUM_ALLOWED:
                owners.add(c)
            else:
                up = helper_of_allowed(c, seen + (q,))
                if up is None:
                    return None
                owners |= up
        return owners

    for q in sorted(prog.funcs):
        f = prog.funcs[q]
        enums = fs_enumerations(prog, f)
        total_enum += len(enums)
        owners = helper_of_allowed(q) if enums and q not in ENUM_ALLOWED \
            and q not in reach_conf else None
        for call in enums:
            if owners:
                ctx.ok("C09a-no-enumeration", f,
                       f"accepted enumeration {ast.unparse(call)[:60]}",
                       "private helper of " + ", ".join(sorted(owners))
                       + ": " + "; ".join(ENUM_ALLOWED[o] for o in
                                          sorted(owners)))
                continue
            if q in reach_conf:
                ctx.fail("C09a-no-enumeration", f,
                         f"directory enumeration {ast.unparse(call)[:70]}",
                         "files are discovered by enumerating a directory "
                         "on the confidence-assignment path: leftovers of "
                         "earlier runs that match the pattern are consumed",
                         node=call)
            elif q in reach_all and q not in ENUM_ALLOWED:
                ctx.fail("C09a-no-enumeration", f,
                         f"directory enumeration {ast.unparse(call)[:70]}",
                         "directory enumeration reachable from an entry "
                         "point and not in the accepted table", node=call)
            elif q in ENUM_ALLOWED:
                ctx.ok("C09a-no-enumeration", f,
                       f"accepted enumeration {ast.unparse(call)[:60]}",
                       ENUM_ALLOWED[q])
    ctx.floor("C09a-enumeration-scanner", total_enum, 2)
    ctx.ok("C09a-no-enumeration", "mokapot.confidence.assign_confidence",
           f"no directory enumeration among {len(reach_conf)} functions "
           "reachable from assign_confidence")
    _check_rollup_filter(ctx)
    # a whole-table write never adds to an existing file (shared with C13):
    # the temporary score chunks and the rollup results go through write()
    from .c13 import write_overrides_start_fresh
    write_overrides_start_fresh(ctx, "C09b-write-starts-fresh")
    _check_sorted_iterator(ctx)
    # ---------------------------------------------------------------- b
    n_open = 0
    n_append = 0
    for q in sorted(prog.funcs):
        f = prog.funcs[q]
        for call, mode in open_calls(prog, f):
            n_open += 1
            m = str(mode)
            risky = m.startswith("a") or m.startswith("r+") or m == "?"
            if risky:
                n_append += 1
            if risky and q in reach_all:
                ctx.fail("C09b-truncating-open", f,
                         f"open(..., {m!r}) of {ast.unparse(call.args[0])[:40]}",
                         f"file opened in mode {m!r} on a path reachable "
                         "from an entry point: content left by an earlier "
                         "run is kept and mixed into this run's file",
                         node=call)
            elif risky:
                ctx.note(f"append-mode open in {q} (not reachable from the "
                         "entry points; informational)")
            elif q in reach_all:
                ctx.ok("C09b-truncating-open", f,
                       f"open(..., {m!r}) of {ast.unparse(call.args[0])[:40]}")
    ctx.floor("C09b-open-scanner", n_open, 4)
    # positive control: the scanner must see the known append-mode opens
    ctx.control("append-mode opens visible to the scanner", n_append >= 1,
                f"{n_append} append-mode open() sites package-wide")
    _check_writers(ctx, reach_all)
    _check_outputs_initialised(ctx)
    # ---------------------------------------------------------------- c
    _check_level_cleanup(ctx)
    _check_no_dropped_effects(ctx, reach_all)
    # ---------------------------------------------------------------- d
    _check_input_replacement(ctx, reach_all)


def _check_outputs_initialised(ctx):
    """Every path that assign_confidence hands on as a result file (it is
    appended to later, header-less) has been initialised - header written,
    old content truncated - by a writer created for that very path."""
    prog = ctx.prog
    g = prog.func("mokapot.confidence.assign_confidence")
    from ..cfg import CFG
    from ..events import container_events, root_name
    from ..tutil import no_uids
    cfg = CFG(g.node)
    T = Terms(DefUse(prog, g), phi_vars=True)
    evs = container_events(g.node, T, cfg)
    lc = [n for n in ast.walk(g.node) if isinstance(n, ast.Call)
          and callee_is(prog, g, n, "LinearConfidence")]
    ctx.require(len(lc) == 1, f"{g.qual}: LinearConfidence call not found")
    op = prog.bind(prog.func(
        "mokapot.confidence.LinearConfidence.__init__"), lc[0]).get(
        "out_paths")
    ctx.require(op is not None, f"{g.qual}: out_paths not passed")
    roots = {x[1] for x in walk_term(T.of(op)) if isinstance(x, tuple)
             and x and x[0] == "var"}
    # a local list that is filled and then filed into the container
    # (paths = []; paths.append(p); out[level] = paths) is part of it
    for e in evs:
        if root_name(e.recv) in roots and e.kind == "store" and \
                e.value is not None and e.value[0] == "var":
            roots = roots | {e.value[1]}
    handed = []         # (path term, condition strings)
    for e in evs:
        if root_name(e.recv) not in roots:
            continue
        vals = []
        if e.kind == "store" and e.value[0] == "list":
            vals = list(e.value[1])
        elif e.kind == "append":
            vals = list(e.args)
        for v in vals:
            handed.append((no_uids(v), set(cfg.conditions(e.stmt)), e.node))
    ctx.floor("C09b-result-paths", len(handed), 1)
    inits = []
    for n in ast.walk(g.node):
        if isinstance(n, ast.Call) and isinstance(n.func, ast.Attribute) \
                and n.func.attr == "initialize":
            r = T.of(n.func.value)
            if r[0] == "call" and r[1].endswith("TabularDataWriter."
                                                "from_suffix") and r[2]:
                inits.append((no_uids(r[2][0]),
                              set(cfg.conditions(cfg.stmt_of(n)))))
    for path, conds, node in handed:
        mine = [c for p_, c in inits if p_ == path]
        ok = bool(mine) and any(
            conds <= c and c - conds <= {"not append_to_output_file"}
            for c in mine)
        ctx.check(ok, "C09b-result-file-initialised", g,
                  f"result file {show(path, 60)} is initialised (header, "
                  "truncation) by a writer for that path before rows are "
                  "appended to it",
                  f"no writer created for {show(path, 80)} is initialised "
                  f"under {sorted(conds)}: rows are appended to a file "
                  "without header, or to whatever an earlier run left "
                  f"there (initialised paths: "
                  f"{[show(p_, 50) for p_, _c in inits]})", node=node)


def _check_no_dropped_effects(ctx, reach_all):
    """Removal / write effects wrapped in a lazy iterator that nobody
    consumes never happen (map(os.unlink, paths) as a statement)."""
    from ..effects import dropped_lazy_effects
    prog = ctx.prog
    probe = ast.parse("def _p(xs):\n    map(os.unlink, xs)\n"
                      "    (os.unlink(x) for x in xs)\n").body[0]
    ctx.control("dropped lazy iterators are visible to the scanner",
                len(dropped_lazy_effects(probe)) == 2,
                "probe with map(...) and a generator expression statement")
    n = 0
    for q in sorted(reach_all):
        f = prog.funcs.get(q)
        if f is None or isinstance(f.node, ast.Lambda):
            continue
        n += 1
        for e in dropped_lazy_effects(f.node):
            ctx.fail("C09c-effects-actually-run", f,
                     f"'{ast.unparse(e)[:60]}' as a statement",
                     "a lazy iterator is built and dropped: the function "
                     "inside is never called, so the files it should remove "
                     "or write stay as they are", node=e)
    ctx.ok("C09c-effects-actually-run", "mokapot",
           f"{n} functions reachable from the entry points: no map / "
           "filter / generator expression used as a statement")


def _check_rollup_filter(ctx, rule="C09a-rollup-excludes-own-output"):
    prog = ctx.prog
    f = prog.func("mokapot.brew_rollup.do_rollup")
    du = DefUse(prog, f)
    T = Terms(du)
    # every list that feeds the readers must pass the file_root filter:
    # start from the sink (the readers handed to the merging reader) and
    # walk back to the file lists they are built from
    mr = [n for n in ast.walk(f.node) if isinstance(n, ast.Call)
          and callee_is(prog, f, n, "MergedTabularDataReader")]
    ctx.require(len(mr) == 1, f"{f.qual}: merging reader not found")
    b = prog.bind(prog.func(
        "mokapot.streaming.MergedTabularDataReader.__init__"), mr[0])
    ctx.require("readers" in b, f"{f.qual}: readers argument not bound")
    from ..tutil import concat_parts
    reader_lists = []
    for kind, part in concat_parts(T.of(b["readers"])):
        if kind == "splice" and part[0] == "comp" and len(part[3]) == 1 \
                and any(x[0] == "call" and x[1] ==
                        "mokapot.streaming.ComputedTabularDataReader"
                        for x in walk_term(part[2])):
            reader_lists.append(part)
        else:
            reader_lists.append(None)
    ctx.require(len(reader_lists) >= 2 and None not in reader_lists,
                f"{f.qual}: the readers are not built from lists of files "
                f"({show(T.of(b['readers']), 120)})")

    def leaves(t):
        if t[0] == "phi":
            return [y for x in t[1] for y in leaves(x)]
        if t[0] == "bin" and t[1] == "+":
            return leaves(t[2]) + leaves(t[3])
        if t[0] == "call" and t[1] in ("builtins.sorted",
                                       "builtins.list") and t[2]:
            return leaves(t[2][0])
        return [t]

    def filtered(t):
        if t[0] != "comp":
            return False
        for _names, it_, conds in t[3]:
            for c in conds:
                if c[0] == "un" and c[1] == "not" and c[2][0] == "mcall" \
                        and c[2][2] == "startswith" and len(c[2][3]) == 1 \
                        and any(x[0] == "attr" and x[2] == "file_root"
                                for x in walk_term(c[2][3][0])) \
                        and any(x == ("elem", it_)
                                for x in walk_term(c[2][1])):
                    return True
        return False

    for part in reader_lists:
        it = part[3][0][1]
        ok = all(filtered(x) for x in leaves(it))
        ctx.check(ok, rule, f,
                  f"input list {show(it, 80)} excludes "
                  "files starting with the tool's own file_root",
                  f"on some path the list of input files is not filtered by "
                  f"'not name.startswith(file_root)': {show(it, 200)}: "
                  "previous outputs of the rollup tool itself are read back "
                  "in", node=mr[0])


def _check_sorted_iterator(ctx):
    prog = ctx.prog
    f = prog.func("mokapot.confidence.create_sorted_file_iterator")
    du = DefUse(prog, f)
    T = Terms(du)
    cfg = CFG(f.node)
    ms = [n for n in ast.walk(f.node) if isinstance(n, ast.Call)
          and callee_is(prog, f, n, "mokapot.utils.merge_sort")]
    ctx.require(len(ms) == 1, f"{f.qual}: expected one merge_sort call")
    mb = prog.bind(prog.func("mokapot.utils.merge_sort"), ms[0])
    ctx.require(mb.get("paths") is not None, f"{f.qual}: merge_sort called "
                "without its list of paths")
    merged = T.of(mb["paths"])
    bad = [x for x in walk_term(merged)
           if x[0] == "mcall" and x[2] in ("glob", "rglob", "iterdir")]
    ctx.check(not bad, "C09a-merge-written-list", f,
              "merge_sort input is not a directory listing",
              f"merge_sort reads {show(merged, 160)}", node=ms[0])
    # the write path of every chunk task is an element of the merged list
    tasks = [n for n in ast.walk(f.node) if isinstance(n, ast.Call)
             and delayed_task_of(prog, f, n,
                                 "_save_sorted_metadata_chunks")]
    ctx.require(len(tasks) == 1, f"{f.qual}: expected one delayed "
                "_save_sorted_metadata_chunks task")
    task = tasks[0]
    callee = prog.func("mokapot.confidence._save_sorted_metadata_chunks")
    b = prog.bind(callee, task)
    wp = b.get("chunk_write_path")
    ctx.require(wp is not None, f"{f.qual}: chunk_write_path not bound")
    # evaluate in the generator's scope: find the generator expression
    gen = cfg.enclosing(task, (ast.GeneratorExp, ast.ListComp))
    ctx.require(gen is not None, f"{f.qual}: task not in a generator")
    gT = T.of(gen)
    elt_calls = [x for x in walk_term(gT)
                 if x[0] == "call" and x[1] == callee.qual]
    ctx.require(elt_calls, f"{f.qual}: task call term not found")
    targs = elt_calls[0][2]
    wpt = targs[4] if len(targs) > 4 else dict(elt_calls[0][3]).get(
        "chunk_write_path")
    ok = False
    why = show(wpt, 200) if wpt else "?"
    if wpt is not None:
        if wpt[0] == "zipelem" and wpt[2][wpt[1]] == merged:
            ok = True
        elif wpt[0] == "elem" and wpt[1] == merged:
            ok = True
        elif merged[0] == "comp" and (merged[2]) == (wpt):
            ok = True
    ctx.check(ok, "C09a-merge-written-list", f,
              "the paths merged are exactly the paths the chunk tasks write",
              f"chunk tasks write to {why} but merge_sort reads "
              f"{show(merged, 160)}", node=task)
    # c: unlink of the same list inside a finally covering the yield
    tries = [n for n in ast.walk(f.node) if isinstance(n, ast.Try)
             and n.finalbody]
    ok_fin = False
    for tr in tries:
        has_yield = any(isinstance(n, (ast.Yield, ast.YieldFrom))
                        for s in tr.body for n in ast.walk(s))
        for lp in [n for s in tr.finalbody for n in ast.walk(s)
                   if isinstance(n, ast.For)]:
            it = T.of(lp.iter)
            unl = [n for n in ast.walk(lp) if isinstance(n, ast.Call)
                   and isinstance(n.func, ast.Attribute)
                   and n.func.attr in ("unlink", "remove")
                   or (isinstance(n, ast.Call)
                       and ast.unparse(n.func) in ("os.unlink", "os.remove"))]
            if has_yield and it == merged and unl:
                ok_fin = True
    ctx.check(ok_fin, "C09c-chunk-cleanup-in-finally", f,
              "temporary chunk files are removed in a finally block that "
              "covers the consumer of the merged stream",
              "no 'finally' that unlinks every merged chunk file around the "
              "yield", node=f.node)


def _check_writers(ctx, reach_all):
    prog = ctx.prog
    n_groups = 0
    for q in sorted(prog.funcs):
        f = prog.funcs[q]
        if q not in reach_all:
            continue
        if not any(isinstance(n, ast.Attribute) and n.attr in (
                "append_data", "initialize") for n in ast.walk(f.node)):
            continue
        if f.cls is not None and f.cls.module.name == "mokapot.tabular_data":
            continue  # the writer classes themselves
        w = WriterEvents(prog, f)
        for key, g in w.groups.items():
            r = w.check_group(g)
            if not r["appends"]:
                continue
            n_groups += 1
            if q in INIT_BY_CALLER:
                ctx.ok("C09b-writer-initialised", f,
                       f"writers {key[:70]}", INIT_BY_CALLER[q])
            else:
                cond = [c for c in r["conditional"]]
                ctx.check(r["init_ok"] and not cond,
                          "C09b-writer-initialised", f,
                          f"writers {key[:70]} are initialize()d "
                          "(truncated) before the first append_data on "
                          "every path",
                          "; ".join(r["why"]) or
                          f"initialisation is conditional on {cond}",
                          node=g["events"][0][1])
    ctx.floor("C09b-writer-groups", n_groups, 2)
    # result writers of assign_confidence: initialised unless the documented
    # append flag is set
    f = prog.func("mokapot.confidence.assign_confidence")
    cfg = CFG(f.node)
    du = DefUse(prog, f)
    # (that every result path is truncated unless the append flag is set
    # is judged on events in _check_outputs_initialised:
    # C09b-result-file-initialised)
    # the append flag itself: default False, only raised after a collection
    # without prefix (documented multi-collection appending)
    d = f.defaults().get("append_to_output_file")
    ctx.check(const_value(d, None) is False, "C09b-append-flag-default", f,
              "append_to_output_file defaults to False",
              f"default is {ast.unparse(d) if d is not None else None}",
              node=f.node)
    # CSV append primitive is only used inside the writer class
    for q in sorted(prog.funcs):
        fn = prog.funcs[q]
        for n in pandas_append_writes(fn):
            ok = q == "mokapot.tabular_data.CSVFileWriter.append_data"
            ctx.check(ok, "C09b-csv-append-primitive", fn,
                      f"to_csv(mode='a') at {q.rsplit('.', 2)[-2:]}",
                      "raw append-mode to_csv outside CSVFileWriter."
                      "append_data bypasses the initialize() protocol",
                      node=n)
    # CSVFileWriter.initialize truncates
    init = prog.func("mokapot.tabular_data.CSVFileWriter.initialize")
    calls = [n for n in ast.walk(init.node) if isinstance(n, ast.Call)
             and isinstance(n.func, ast.Attribute) and n.func.attr == "to_csv"]
    ok = len(calls) == 1 and not any(
        kw.arg == "mode" for kw in calls[0].keywords) and \
        ast.unparse(calls[0].args[0]) == "self.file_name"
    ctx.check(ok, "C09b-initialize-truncates", init,
              "CSVFileWriter.initialize rewrites the file (default mode 'w')",
              "initialize() does not truncate self.file_name",
              node=init.node)


def _check_level_cleanup(ctx):
    prog = ctx.prog
    f = prog.func("mokapot.confidence.LinearConfidence._assign_confidence")
    cfg = CFG(f.node)
    du = DefUse(prog, f)
    T = Terms(du)
    loops = [n for n in ast.walk(f.node) if isinstance(n, ast.For)
             and "level_paths" in ast.unparse(n.iter)]
    ctx.require(len(loops) == 1, f"{f.qual}: level loop not found")
    lp = loops[0]
    unl = [n for n in ast.walk(lp) if isinstance(n, ast.Call)
           and callee_is(prog, f, n, "os.unlink", "os.remove")
           and n.args and isinstance(n.args[0], ast.Name)]
    path_var = None
    for n in unl:
        t = T.of(n.args[0])
        if t[0] == "zipelem" and tkey(t[2][t[1]]) == "level_paths":
            path_var = n
    ctx.check(path_var is not None, "C09c-level-file-removed", f,
              "the level file of each iteration is unlinked",
              "no os.unlink of the per-iteration level path", node=lp)
    if path_var is not None:
        hdr = cfg.node_of(lp).id
        first = cfg.node_of(lp.body[0]).id
        un = cfg.node_of(path_var).id
        ok = cfg.every_path_passes(first, hdr, {un}) or first == un
        # a path that leaves the loop body normally without the unlink
        ctx.check(ok, "C09c-level-file-removed-all-paths", f,
                  "the unlink lies on every normal path through the loop "
                  "body",
                  "some path through the loop body skips the unlink: "
                  + cfg.describe_path(cfg.witness_path(first, hdr, {un})
                                      or []),
                  node=path_var)
    # created level files are a subset of those handed over
    g = prog.func("mokapot.confidence.assign_confidence")
    du2 = DefUse(prog, g)
    T2 = Terms(du2)
    from ..proto import Calls
    from ..tutil import bound_args, map_term
    lcs = Calls(prog, g, du=du2, T=T2).calls(
        "mokapot.confidence.LinearConfidence")
    ctx.require(len(lcs) == 1, f"{g.qual}: LinearConfidence call not found")
    lp_t = (bound_args(prog, lcs[0][0]) or {}).get("level_paths")
    ctx.require(lp_t is not None and lp_t[0] == "comp" and len(lp_t[3]) == 1
                and not lp_t[3][0][2],
                f"{g.qual}: level_paths is not one path per level")
    over = lp_t[3][0][1]
    handed_path = lp_t[2]
    # the writers of the level files: {level: from_suffix(path(level), ...)}
    created = []
    for d in du2.defs:
        if d.kind != "assign" or d.value is None:
            continue
        t = T2.of_def(d)
        if t[0] == "comp" and t[1] == "dict" and len(t[3]) == 1 and \
                t[2][0] == "tuple" and len(t[2][1]) == 2:
            v = t[2][1][1]
            if v[0] == "call" and v[1].endswith(
                    "TabularDataWriter.from_suffix") and v[2]:
                created.append((v[2][0], t[3][0][1], d))
    ctx.require(len(created) == 1, f"{g.qual}: level handles not found")
    made_path, hover, hd = created[0]
    alts = list(over[1]) if over[0] == "phi" else [over]

    def covers(a):
        if a == hover:
            return True
        if a[0] == "list" and a[1] and a[1][0] == ("star", hover):
            return True
        if a[0] == "bin" and a[1] == "+" and a[2] == hover:
            return True
        return False
    ok = all(covers(a) for a in alts)
    # the same path expression, as a function of the level
    hp = map_term(handed_path, lambda x: ("LEVEL",) if x == ("elem", over)
                  else x)
    mp = map_term(made_path, lambda x: ("LEVEL",) if x == ("elem", hover)
                  else x)
    ctx.check(ok and hp == mp, "C09c-created-subset-of-removed", g,
              "every level file created is handed to _assign_confidence "
              "(which removes it)",
              f"level files are created as {show(made_path, 60)} for "
              f"{show(hover, 60)} but handed over as "
              f"{show(handed_path, 60)} for {show(over, 100)}",
              node=lcs[0][1])


def _check_input_replacement(ctx, reach_all):
    prog = ctx.prog
    n = 0
    for q in sorted(reach_all):
        f = prog.funcs.get(q)
        if f is None:
            continue
        moves = [c for c, kind, tg in prog.call_sites(f)
                 if kind == "external" and tg and tg[0] in (
                     "shutil.move", "os.replace", "os.rename",
                     "shutil.copy", "shutil.copyfile")]
        if not moves:
            continue
        du = DefUse(prog, f)
        T = Terms(du)
        for mv in moves:
            n += 1
            src = T.of(mv.args[0])
            modes = [m for c, m in open_calls(prog, f)
                     if c.args and T.of(c.args[0]) == src]
            ok = bool(modes) and all(str(m)[0] in "wx" for m in modes)
            if ok:
                # "by this run": the truncating open lies on every path that
                # reaches the replacement - a guard that skips the producer
                # (a file found on disk, a cache flag) lets a file nobody
                # wrote in this run replace the input
                cfg = CFG(f.node)
                opens = {cfg.node_of(c).id for c, m in open_calls(prog, f)
                         if c.args and T.of(c.args[0]) == src}
                mvn = cfg.node_of(mv).id
                if not cfg.every_path_passes(cfg.entry.id, mvn, opens):
                    w = cfg.witness_path(cfg.entry.id, mvn, opens)
                    ctx.fail("C09d-replacement-is-fresh", f,
                             f"{ast.unparse(mv)[:60]}: a path reaches the "
                             "replacement without opening the replacing "
                             "file",
                             "the file moved over the input is not written "
                             "by this run on the path "
                             + (cfg.describe_path(w) if w else "?")
                             + ": a leftover of an interrupted run replaces "
                             "the user's input", node=mv)
                    continue
            ctx.check(ok, "C09d-replacement-is-fresh", f,
                      f"{ast.unparse(mv)[:60]}: the replacing file was "
                      "opened in truncating mode by this run",
                      f"the file moved over the input is opened with modes "
                      f"{modes}: leftovers of an interrupted run end up in "
                      "the user's input", node=mv)
    ctx.floor("C09d-moves", n, 1)
