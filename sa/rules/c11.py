"""C11 - per-fold score calibration is order preserving and anchors 0 / -1."""

from __future__ import annotations

import ast

from ..cfg import CFG
from ..core import callee_is, AnalysisError, walk_own
from ..astutil import cond_terms, inside
from ..defuse import DefUse, Terms, show, walk_term
from ..defuse import key as tkey
from ..tutil import find_calls, lin, np_call, strip_conv

EXPLANATION = (
    "Static analysis of both calibration twins (dataset.calibrate_scores "
    "and OnDiskPsmDataset.calibrate_scores) and of brew._predict. (a) "
    "def-use reconstruction + linear normal form: the returned value is "
    "(s - a)/(a - b) with a = min of the scores labelled +1 and b = median "
    "of the scores labelled -1, the labels coming from _update_labels on "
    "the same scores/targets/eval_fdr/desc; hence f(a)=0, f(b)=-1 and f is "
    "affine in s. The emptiness guard on the +1 set raises before the "
    "anchors are used. (b) in _predict the calibration is applied inside "
    "the loop over fold models to hstack(pop(0)) of the per-fold score list "
    "and of the per-fold target list (both filled per enumerate index of "
    "the same fold slices), a RuntimeError is re-raised as an explicit "
    "error and nothing is yielded on that path. Also: the model-versus-best-feature comparison of brew (shared with C07a) decides whether the calibrated scores are what is returned. "
    "Also: the per-collection state clause of _predict (shared with C02d). "
    "NOT decided: a > b for "
    "given data (strict monotonicity), estimator behaviour.")
TECHNIQUE = ("def-use term reconstruction + linear normal form + CFG "
             "guard/raise pairing + sibling agreement")

UL = "mokapot.dataset._update_labels"
TWINS = ["mokapot.dataset.calibrate_scores",
         "mokapot.dataset.OnDiskPsmDataset.calibrate_scores"]


def run(ctx):
    prog = ctx.prog
    facts = []
    for q in TWINS:
        facts.append(_check_twin(ctx, prog.func(q)))
    deleg = [x for x in facts if x[0] == "delegates"]
    ctx.require(len(deleg) < 2, "both calibration forms delegate")
    ctx.check(bool(deleg) or _same_fact(facts), "C11-twins-agree", TWINS[1],
              "function and method form of the calibration agree",
              f"function: {facts[0]}  method: {facts[1]}")
    _check_predict(ctx, prog.func("mokapot.brew._predict"))
    _check_reset_path(ctx, prog.func("mokapot.brew.brew"))
    # calibrated scores must go back to the PSMs they were computed for:
    # the fold/slot/row bookkeeping of _predict is a clause of this property
    # too (shared with C02b/d)
    from .c02 import _predict as _c02_predict
    _c02_predict(ctx, prog.func("mokapot.brew._predict"))
    # ... and so is the row index the readers hand to that bookkeeping
    from .c05 import _parquet_index
    _parquet_index(ctx)
    # whether the calibrated scores are what brew returns is decided by the
    # model-versus-best-feature comparison (shared with C07a): a miscount
    # there silently replaces them by a raw feature column
    from .c07 import _fallback
    _fallback(ctx, prog.func("mokapot.brew.brew"))


def _label_column_ok(tg):
    """Targets read from file must be ONE COLUMN of the converted frame,
    read by passing a LIST of column names (the reader is type-checked:
    columns must be a list):  convert_targets_column(read_data(columns=[c]),
    c)[c].  Returns (ok, why)."""
    t = strip_conv(tg)
    if not (t[0] == "sub" and t[1][0] == "call" and t[1][1] ==
            "mokapot.utils.convert_targets_column"):
        return False, ("the whole converted frame (not its label column) "
                       "is used as the label vector")
    col = t[2]
    reads = [x for x in walk_term(t[1]) if isinstance(x, tuple) and x
             and x[0] == "mcall" and x[2] in ("read_data", "read")]
    if not reads:
        return False, "labels are not read from the file"
    for r in reads:
        cols = dict(r[4]).get("columns", r[3][0] if r[3] else None)
        if cols is None:
            continue        # all columns
        if cols[0] != "list":
            return False, (f"read_data(columns={show(cols, 40)}) passes a "
                           "single name where the type-checked reader "
                           "requires a list of names: the call always "
                           "raises")
        if col not in cols[1]:
            return False, "the label column is not among the columns read"
    return True, ""


def _same_fact(facts):
    strip = [tuple(x for x in f if not str(x).startswith("targets:"))
             for f in facts]
    return strip[0] == strip[1]


def _check_twin(ctx, f):
    prog = ctx.prog
    du = DefUse(prog, f)
    T = Terms(du)
    rets = T.returns()
    ctx.require(len(rets) == 1, f"{f.qual}: expected one return")
    rnode, rt = rets[0]
    ps = [p for p in f.params if p != "self"]
    p_scores = ps[0]
    rt = strip_conv(rt)
    if rt[0] == "call" and rt[1] in TWINS and rt[1] != f.qual:
        # one form delegates to the other: agreement by construction, as
        # long as scores, threshold and direction are handed through
        other = prog.func(rt[1])
        ops = [p for p in other.params if p != "self"]
        bound = dict(zip(ops, rt[2]))
        bound.update(dict(rt[3]))
        ok_args = (strip_conv(bound.get(ops[0], ("const", None)))
                   == ("param", p_scores)
                   and bound.get(ops[-2]) == ("param", ps[-2])
                   and bound.get(ops[-1]) == ("param", ps[-1]))
        ctx.check(ok_args, "C11a-label-args", f,
                  "the delegating form hands its scores, eval_fdr and "
                  "direction through",
                  f"delegation is {show(rt, 200)}", node=rnode)
        tg = bound.get(ops[1], ("const", None))
        if strip_conv(tg)[0] != "param":
            conv = find_calls(tg, "mokapot.utils.convert_targets_column")
            ctx.check(bool(conv), "C11a-targets-converted", f,
                      "label column read from file is converted to booleans",
                      f"targets are {show(tg, 120)} without "
                      "convert_targets_column", node=rnode)
            okc, whyc = _label_column_ok(tg)
            ctx.check(okc, "C11a-targets-are-the-label-column", f,
                      "the labels are the converted label column, read "
                      "with a list of column names", whyc, node=rnode)
        return ("delegates", rt[1])
    ctx.require(rt[0] == "bin" and rt[1] == "/",
                f"{f.qual}: calibration is not a quotient: {show(rt, 160)}")
    key = (lambda x: tkey(strip_conv(x), 600))
    num, den = lin(rt[2], key), lin(rt[3], key)
    s_key = key(("param", p_scores))
    others_n = {k: v for k, v in num.atoms.items() if k != s_key}
    ok_form = (num.atoms.get(s_key) == 1 and num.const == 0
               and len(others_n) == 1 and list(others_n.values())[0] == -1
               and den.const == 0 and len(den.atoms) == 2)
    ctx.require(ok_form or True, "")
    a_key = next(iter(others_n)) if len(others_n) == 1 else None
    ok_num = ok_form
    ctx.check(ok_num, "C11a-numerator", f,
              "numerator is  scores - a", f"numerator is {num!r}",
              node=rnode)
    if not ok_num:
        return ("unrecognised",)
    b_keys = [k for k in den.atoms if k != a_key]
    ok_den = (den.atoms.get(a_key) == 1 and len(b_keys) == 1
              and den.atoms[b_keys[0]] == -1)
    ctx.check(ok_den, "C11a-denominator", f,
              "denominator is  a - b  with the same a (so f(a)=0, f(b)=-1 "
              "and the slope is positive when a > b)",
              f"denominator is {den!r}; with numerator {num!r} the anchors "
              "0 / -1 or the sign of the slope are lost", node=rnode)
    if not ok_den:
        return ("unrecognised",)
    a_t = num.terms[a_key]
    b_t = den.terms[b_keys[0]]

    def anchor(t, red, label):
        c = np_call(strip_conv(t))
        if not (c and c[0] == red and c[1]):
            return False, f"{show(t, 100)} is not np.{red}(...)"
        sel = strip_conv(c[1][0])
        if sel[0] != "sub" or strip_conv(sel[1]) != ("param", p_scores):
            return False, f"{red} is not taken over the score vector"
        m = strip_conv(sel[2])
        if not (m[0] == "cmp" and m[1] == "==" and m[3] == ("const", label)):
            return False, (f"{red} is taken over {show(m, 80)}, expected "
                           f"labels == {label}")
        labs = strip_conv(m[2])
        if not (labs[0] == "call" and labs[1] == UL):
            return False, "labels do not come from _update_labels"
        return True, labs

    ok_a, la = anchor(a_t, "min", 1)
    ctx.check(ok_a, "C11a-anchor-zero", f,
              "a = lowest score among the accepted targets (label +1)",
              la if not ok_a else "", node=rnode)
    ok_b, lb = anchor(b_t, "median", -1)
    ctx.check(ok_b, "C11a-anchor-minus-one", f,
              "b = median score of the decoys (label -1)",
              lb if not ok_b else "", node=rnode)
    fact = ["affine"]
    if ok_a and ok_b:
        ctx.check(la == lb, "C11a-same-labels", f,
                  "both anchors use one label vector",
                  "the two anchors are computed from different label "
                  "vectors", node=rnode)
        # labels = _update_labels(scores, targets, eval_fdr, desc)
        ulf = prog.func(UL)
        bound = {}
        for i, a in enumerate(la[2]):
            bound[ulf.params[i]] = a
        for k, v in la[3]:
            bound[k] = v
        want_fdr = ("param", ps[-2]) if len(ps) >= 3 else None
        want_desc = ("param", ps[-1])
        ok_args = (strip_conv(bound.get(ulf.params[0], ("const", None)))
                   == ("param", p_scores)
                   and bound.get(ulf.params[2]) == want_fdr
                   and bound.get(ulf.params[3]) == want_desc)
        ctx.check(ok_args, "C11a-label-args", f,
                  "labels are computed from the same scores, the caller's "
                  "eval_fdr and direction",
                  f"_update_labels receives {show(la, 200)}", node=rnode)
        tg = bound.get(ulf.params[1], ("const", None))
        fact.append("targets:" + ("param" if strip_conv(tg)[0] == "param"
                                  else "file"))
        if strip_conv(tg)[0] != "param":
            # method form: targets read from file and converted
            conv = find_calls(tg, "mokapot.utils.convert_targets_column")
            ctx.check(bool(conv), "C11a-targets-converted", f,
                      "label column read from file is converted to booleans",
                      f"targets are {show(tg, 120)} without "
                      "convert_targets_column", node=rnode)
            okc, whyc = _label_column_ok(tg)
            ctx.check(okc, "C11a-targets-are-the-label-column", f,
                      "the labels are the converted label column, read "
                      "with a list of column names", whyc, node=rnode)
    # emptiness guard raises before the anchors are computed
    cfg = CFG(f.node)
    raises = [n for n in ast.walk(f.node) if isinstance(n, ast.Raise)]
    guard_ok = False
    def positives_count(t):
        """is t 'how many / whether any labels are +1'?"""
        c = np_call(t)
        if c and c[0] in ("sum", "any", "count_nonzero") and c[1]:
            m = strip_conv(c[1][0])
            return m[0] == "cmp" and m[1] == "==" and ("const", 1) in (
                m[2], m[3])
        if t[0] == "call" and t[1] == "builtins.len" and t[2]:
            x = t[2][0]
            return x[0] == "sub" and positives_count(
                ("mcall", x[2], "sum", (), ()))
        return False

    def says_none(t, o):
        """does (test, outcome) mean 'there is no positive label'?"""
        while t[0] == "un" and t[1] == "not":
            t, o = t[2], not o
        if positives_count(t):
            return not o
        if t[0] == "cmp" and positives_count(t[2]) and t[3][0] == "const":
            k = t[3][1]
            return {("==", 0): o, ("!=", 0): not o, (">", 0): not o,
                    ("<", 1): o, (">=", 1): not o, ("<=", 0): o}.get(
                        (t[1], k), False)
        if t[0] == "cmp" and positives_count(t[3]) and t[2][0] == "const":
            k = t[2][1]
            return {("==", 0): o, ("!=", 0): not o, ("<", 0): not o,
                    (">", 1): False, ("<=", 1): False}.get((t[1], k),
                                                            False)
        return False

    for r in raises:
        for test, pol in cfg.necessary_conditions(r):
            if says_none(T.of(test), pol) and cfg.every_path_passes(
                    cfg.entry.id, cfg.node_of(rnode).id,
                    {cfg.node_of(cfg.stmt_of(test)).id}):
                guard_ok = True
    ctx.check(guard_ok, "C11a-empty-guard", f,
              "no accepted target -> explicit error before the anchors are "
              "used",
              "no guard 'if not (labels == 1).sum(): raise' dominating the "
              "return", node=rnode)
    fact.append("guard" if guard_ok else "noguard")
    return tuple(x for x in fact if not x.startswith("targets:"))


def _check_predict(ctx, f):
    prog = ctx.prog
    du = DefUse(prog, f)
    T = Terms(du, phi_vars=True)
    cfg = CFG(f.node)
    calls = [n for n in ast.walk(f.node) if isinstance(n, ast.Call)
             and callee_is(prog, f, n, TWINS[0])]
    ctx.require(len(calls) == 1,
                f"{f.qual}: expected one calibrate_scores call, found "
                f"{len(calls)}")
    call = calls[0]
    r = prog.resolve_call(f, f.module, call)
    ctx.require(r[0] == "internal" and r[1] == [TWINS[0]],
                f"{f.qual}: calibrate_scores resolves to {r}")
    loop = cfg.enclosing(call, (ast.For, ast.While))
    ctx.require(loop is not None, f"{f.qual}: calibration is not inside the "
                "loop over the fold models")
    if isinstance(loop, ast.While):
        raise AnalysisError(
            f"{f.qual}: the per-fold calibration loop is a while loop "
            f"('{ast.unparse(loop.test)[:40]}'); rule C11b reads for loops "
            "over the models and needs re-reading")
    it = T.of(loop.iter)
    MODELS = ("param", "models")
    over_models = it == MODELS or (
        it[0] == "call" and it[1] in ("builtins.zip", "builtins.enumerate")
        and MODELS in it[2]) or it == (
            "call", "builtins.range", (("call", "builtins.len", (MODELS,),
                                        ()),), ())
    part_of_models = it[0] == "sub" and it[1] == MODELS
    if not over_models and not part_of_models:
        raise AnalysisError(
            f"{f.qual}: the loop around the calibration iterates over "
            f"{show(it, 80)}, a form rule C11b does not read")
    ctx.check(over_models, "C11b-per-fold-loop", f,
              "calibration runs once per fold model",
              f"the enclosing loop iterates over {show(it, 80)}",
              node=loop)

    def popped(arg):
        c = np_call(T.of(arg))
        if not (c and c[0] in ("hstack", "concatenate") and c[1]):
            return None
        inner = c[1][0]
        if inner[0] == "mcall" and inner[2] == "pop" and \
                inner[3] == (("const", 0),) and inner[1][0] == "var":
            return inner[1][1]
        return None

    b = prog.bind(prog.func(TWINS[0]), call)
    ctx.require(all(k in b for k in ("scores", "targets", "eval_fdr")),
                f"{f.qual}: calibrate_scores call does not supply scores, "
                "targets and eval_fdr")
    sname = popped(b["scores"])
    tname = popped(b["targets"])
    ctx.check(sname is not None and tname is not None and sname != tname,
              "C11b-fold-rows", f,
              "calibration gets the next fold's scores and the next fold's "
              "targets (hstack(pop(0)) of two per-fold lists)",
              f"arguments are {ast.unparse(b['scores'])[:60]} and "
              f"{ast.unparse(b['targets'])[:60]}", node=call)
    ctx.check(T.of(b["eval_fdr"]) == ("param", "test_fdr"),
              "C11b-eval-fdr", f, "calibration uses the caller's test_fdr",
              f"eval_fdr is {ast.unparse(b['eval_fdr'])}", node=call)
    d = b.get("desc")
    ctx.check(d is None or (isinstance(d, ast.Constant)
                            and d.value is True),
              "C11b-model-scores-descending", f,
              "learned scores are calibrated as higher = better",
              f"calibration is called with desc={ast.unparse(d) if d else None}"
              ": the direction of an input feature says nothing about the "
              "learned score, which is always higher-is-better", node=call)
    if sname and tname:
        # every pass through the per-model loop takes exactly one entry off
        # each per-fold list, whichever way it leaves the try block:
        # otherwise the lists drift apart and a later fold is calibrated
        # with another fold's targets
        first = loop.body[0]
        while isinstance(first, (ast.Try, ast.With)):
            first = first.body[0]
        body_first = cfg.node_of(first).id
        hdr = cfg.node_of(loop).id
        for lname in (sname, tname):
            pops = [n for n in ast.walk(loop) if isinstance(n, ast.Call)
                    and isinstance(n.func, ast.Attribute)
                    and n.func.attr == "pop" and isinstance(
                        n.func.value, ast.Name)
                    and n.func.value.id == lname]
            pnodes = {cfg.node_of(cfg.stmt_of(p_)).id for p_ in pops}
            at_least = cfg.every_path_passes(body_first, hdr, pnodes) \
                or body_first in pnodes
            twice = False
            for a_ in pnodes:
                reach = cfg.reachable_normally(a_, avoid={hdr})
                if (pnodes - {a_}) & reach:
                    twice = True
            why = ""
            if not at_least:
                wp = cfg.witness_path(body_first, hdr, pnodes)
                why = (f"a pass through the loop leaves '{lname}' "
                       "untouched: " + cfg.describe_path(wp or []))
            elif twice:
                why = f"a pass through the loop pops '{lname}' twice"
            ctx.check(at_least and not twice, "C11b-one-fold-per-pass", f,
                      f"every pass through the per-model loop pops exactly "
                      f"one fold from '{lname}'", why, node=loop)
        # both lists are created as one empty list per fold and filled per
        # enumerate index of the same fold slices
        fill_s = _filled_by(f, du, T, sname, prog)
        fill_t = _filled_by(f, du, T, tname, prog)
        if fill_s is None or fill_t is None:
            raise AnalysisError(
                f"{f.qual}: how the per-fold lists '{sname}' / '{tname}' "
                "are filled is written in a form the rule does not read "
                f"({'scores' if fill_s is None else 'targets'} side)")
        ctx.check(fill_s == fill_t, "C11b-lockstep", f,
                  "per-fold score list and per-fold target list are filled "
                  "from the same fold slices under the same fold index",
                  f"score list filled from {_sh(fill_s)}, target list "
                  f"from {_sh(fill_t)}", node=call)
    _every_fold_calibrated(ctx, f, T, cfg, call, loop)
    _no_narrowing(ctx, f, T)
    # the RuntimeError handler raises an explicit error and yields nothing
    tr = cfg.enclosing(call, (ast.Try,))
    ctx.require(tr is not None, f"{f.qual}: calibration is not inside try")
    handlers = [h for h in tr.handlers if h.type is not None
                and "RuntimeError" in ast.unparse(h.type)]
    ok_h = bool(handlers) and all(
        any(isinstance(n, ast.Raise) for n in ast.walk(h))
        and not any(isinstance(n, (ast.Yield, ast.YieldFrom))
                    for n in ast.walk(h))
        and not any(isinstance(n, ast.Call) and isinstance(
            n.func, ast.Attribute) and n.func.attr == "append"
            for n in ast.walk(h))
        for h in handlers)
    ctx.check(ok_h, "C11b-explicit-error", f,
              "a fold without accepted targets stops the run with an "
              "explicit error instead of returning scores",
              "the RuntimeError of the calibration is swallowed or replaced "
              "by a score", node=tr)


def _sh(x):
    return None if x is None else show(x[0], 80)


def _every_fold_calibrated(ctx, f, T, cfg, call, loop):
    """Every entry of the list of per-fold scores is the calibrated vector,
    except for a model whose estimator has no decision_function (its
    predictions are probabilities): that is the only accepted reason, and
    it must be what the code actually tests."""
    from ..events import container_events, root_name
    from ..tutil import callee_of
    evs = [e for e in container_events(f.node, T, cfg)
           if e.kind == "append" and inside(e.node, loop)]
    target = None
    for e in evs:
        if any(isinstance(x, tuple) and x and x[0] == "call"
               and x[1] == TWINS[0] for a in e.args for x in walk_term(a)):
            target = root_name(e.recv)
    ctx.require(target is not None, f"{f.qual}: the list that receives the "
                "calibrated scores was not found")
    MODEL = ("elem", ("param", "models"))

    def no_decision_function(node):
        """is ``node`` only reached when the estimator lacks
        decision_function?"""
        # (1) inside 'except AttributeError' of a try whose body reads
        # <model>.estimator.decision_function
        cur = node
        while cur is not None and cur is not loop:
            par = cfg.parent.get(id(cur))
            if isinstance(par, ast.ExceptHandler):
                tr = cfg.parent.get(id(par))
                names = set()
                if par.type is not None:
                    for x in ast.walk(par.type):
                        if isinstance(x, ast.Name):
                            names.add(x.id)
                        elif isinstance(x, ast.Attribute):
                            names.add(x.attr)
                if names == {"AttributeError"} and isinstance(tr, ast.Try):
                    for x in ast.walk(ast.Module(body=tr.body,
                                                 type_ignores=[])):
                        if isinstance(x, ast.Attribute) and \
                                x.attr == "decision_function" and \
                                T.of(x.value) == ("attr", MODEL,
                                                  "estimator"):
                            return True
            cur = par
        # (2) under a test 'not hasattr(<model>.estimator,
        # "decision_function")'
        for t, outcome in cond_terms(cfg, T, node):
            if t[0] == "call" and t[1] == "builtins.hasattr" and \
                    t[2] == (("attr", MODEL, "estimator"),
                             ("const", "decision_function")) and \
                    not outcome:
                return True
        return False

    bad = []
    n_cal = 0
    for e in evs:
        if root_name(e.recv) != target:
            continue
        v = e.args[0] if e.args else None
        if v is not None and v[0] == "call" and v[1] == TWINS[0]:
            n_cal += 1
            continue
        if no_decision_function(e.node):
            continue
        bad.append(e)
    ctx.check(not bad and n_cal >= 1, "C11b-every-fold-calibrated", f,
              "every fold's scores are calibrated before they are combined; "
              "the only exception is an estimator without decision_function",
              "; ".join(
                  f"line {getattr(e.node, 'lineno', '?')}: "
                  f"'{target}' receives {show(e.args[0], 70) if e.args else '?'}"
                  " without calibration, on a path that is not restricted "
                  "to estimators lacking decision_function" for e in bad)
              or "no calibrated append found",
              node=bad[0].node if bad else loop)


_NARROW = {"float32", "float16", "half", "single", "int32", "int16", "int8",
           "numpy.float32", "numpy.float16", "numpy.int32", "f4", "f2",
           "<f4", "<f2"}


def _narrow_dtype(t):
    if t is None:
        return False
    if t[0] == "const":
        return t[1] in _NARROW
    if t[0] in ("name", "free", "attr"):
        nm = t[1] if t[0] != "attr" else t[2]
        return isinstance(nm, str) and nm.split(".")[-1] in _NARROW
    return False


def _no_narrowing(ctx, f, T):
    """The combined scores keep the precision of the calibrated scores: a
    narrowing cast makes distinct model outputs equal, so the order within
    a fold is no longer exactly the model's order."""
    bad = []
    for n in walk_own(f.node):
        if isinstance(n, (ast.Yield, ast.Return)) and n.value is not None:
            for x in walk_term(T.of(n.value)):
                if not (isinstance(x, tuple) and x):
                    continue
                if x[0] == "call":
                    kw = dict(x[3])
                    if _narrow_dtype(kw.get("dtype")):
                        bad.append((n, x))
                    if x[1].split(".")[-1] in _NARROW and x[1].startswith(
                            "numpy."):
                        bad.append((n, x))
                elif x[0] == "mcall" and x[2] in ("astype", "view"):
                    a = x[3][0] if x[3] else dict(x[4]).get("dtype")
                    if _narrow_dtype(a):
                        bad.append((n, x))
    ctx.check(not bad, "C11b-no-precision-loss", f,
              "the returned scores are not cast to a narrower type",
              "; ".join(f"line {n.lineno}: {show(x, 80)}" for n, x in bad),
              node=bad[0][0] if bad else f.node)


def _filled_by(f, du, T, lname, prog=None):
    """What is appended to per-fold list ``lname``: (term of the list of
    fold slices, 'aligned') when slot k of the list receives a value
    computed from slice k - directly (any spelling of "the same position":
    enumerate index, zip of the two lists) or through a predict_fold
    task."""
    from ..cfg import CFG
    from ..events import container_events, root_name
    from ..tutil import POS, align_positions, bound_args
    cfg = CFG(f.node)
    # direct: lname[k].append(g(slices[k]))
    for e in container_events(f.node, T, cfg):
        if e.kind != "append" or len(e.args) != 1 or \
                root_name(e.recv) != lname:
            continue
        recv = align_positions(e.recv)
        val = align_positions(e.args[0])
        if recv[0] == "sub" and recv[2] == POS and \
                root_name(recv[1]) == lname:
            srcs = [x[1] for x in walk_term(val) if isinstance(x, tuple)
                    and x[:1] == ("sub",) and len(x) == 3 and x[2] == POS]
            srcs = [x for x in srcs if root_name(x) != lname]
            if len({tkey(x) for x in srcs}) == 1:
                return (srcs[0], "aligned")
            return None
        if recv[0] == "sub" and root_name(recv[1]) == lname and any(
                x == POS for x in walk_term(recv[2])):
            # a slot computed from the position, but not the position
            # itself (k - 1, k + 1 ...): read, and not aligned
            return (recv[2], "shifted")
        return None
    # through predict_fold(model=.., fold=k, psms=slices[k], scores=lname)
    if prog is not None:
        from ..proto import Calls
        for t, n in Calls(prog, f, T=T, cfg=cfg).calls(
                "mokapot.brew.predict_fold"):
            b = bound_args(prog, t) or {}
            ab = prog.bind(prog.func("mokapot.brew.predict_fold"), n)
            sc = ab.get("scores")
            if not (isinstance(sc, ast.Name) and sc.id == lname):
                continue
            fold = align_positions(b.get("fold", ("x",)))
            ps = align_positions(b.get("psms", ("x",)))
            if fold == POS and ps[0] == "sub" and ps[2] == POS:
                return (ps[1], "aligned")
            return None
    return None


def _check_reset_path(ctx, f):
    """brew's 'reset' branch calibrates the ensemble prediction with the
    method twin and the caller's test_fdr."""
    from ..proto import Calls
    from ..tutil import bound_margs
    cl = Calls(ctx.prog, f)
    for t, c in cl.mcalls("calibrate_scores"):
        b = bound_margs(ctx.prog, t)
        if b is None:
            b = dict(t[4])
            for i_, nm in enumerate(("scores", "eval_fdr", "desc")):
                if i_ < len(t[3]):
                    b.setdefault(nm, t[3][i_])
        ok = b.get("eval_fdr") == ("param", "test_fdr")
        ctx.check(ok, "C11b-reset-eval-fdr", f,
                  "reset path calibrates at the caller's test_fdr",
                  f"call is {ast.unparse(c)[:100]}", node=c)
