"""C20 - PepXML parsing turns every search hit into one faithful PSM."""

from __future__ import annotations

import ast

from ..cfg import CFG
from ..astutil import inside
from ..core import AnalysisError, const_value
from ..events import container_events, root_name
from ..defuse import DefUse, Terms, show, walk_term
from ..tutil import lin, no_uids, simp

EXPLANATION = (
    "Static analysis of parsers.pepxml._parse_pepxml / _parse_msms_run / "
    "_parse_spectrum / _parse_psm / read_pepxml. (a) label: the initial "
    "label is 'primary protein does not start with the decoy prefix' and "
    "every alternative protein can only turn a decoy label into a target "
    "label (OR-accumulator: the update is guarded by 'not label' or is an "
    "'or'), using the protein that was just appended; all accessions are "
    "collected. (b) modification insertion: each modification is inserted "
    "at offset + position on both sides of the cut, the text inserted is "
    "'[' + mass + ']' and the running offset grows by exactly its length "
    "(2 + len(mass)) by linear normal form; the offset starts at 0 per "
    "modification_info. (c) nesting: runs -> spectra -> hits are produced "
    "by generators that yield for every element without a filter, and "
    "flattened exactly twice; shared dictionaries are copied before being "
    "modified; spectrum attributes (scan, charge, retention time, mass) "
    "and the run's file name are read from the documented attributes; "
    "several files are concatenated and Percolator/PeptideProphet output "
    "is rejected. NOT decided: lxml semantics, feature transforms.")
TECHNIQUE = ("def-use term matching + linear normal form over string "
             "lengths + generator nesting / alias analysis")

PX = "mokapot.parsers.pepxml."


def run(ctx):
    prog = ctx.prog
    _psm(ctx, prog.func(PX + "_parse_psm"))
    _nesting(ctx)
    _read(ctx, prog.func(PX + "read_pepxml"))


def _psm(ctx, f):
    prog = ctx.prog
    du = DefUse(prog, f)
    T = Terms(du, phi_vars=True)
    cfg = CFG(f.node)
    p_info, p_spec, p_prefix = f.params
    # working dict is a copy of the spectrum info
    cp = [n for n in f.node.body if isinstance(n, ast.Assign)
          and ast.unparse(n.value) == f"{p_spec}.copy()"]
    ctx.check(len(cp) == 1, "C20c-copy-before-mutation", f,
              "the per-hit dictionary is a copy of the spectrum's "
              "dictionary", "spec_info is mutated in place: hits of one "
              "spectrum overwrite each other", node=f.node)
    if len(cp) != 1:
        return
    d = ast.unparse(cp[0].targets[0])
    evs = container_events(f.node, T, cfg)
    PRE = ("param", p_prefix)

    def accession(src, attr="protein"):
        return ("sub", ("mcall", ("mcall", src, "get",
                                  (("const", attr),), ()), "split",
                        (("const", " "),), ()), ("const", 0))

    PRIMARY = accession(("param", p_info))

    def not_decoy(x):
        return ("un", "not", ("mcall", x, "startswith", (PRE,), ()))

    COPY = ("mcall", ("param", p_spec), "copy", (), ())

    def is_d(t):
        while t[0] in ("store", "mut", "mutsub"):
            t = t[1]
        return (t[0] == "var" and t[1] == d) or t == COPY

    def dstores(key):
        return [e for e in evs if e.kind == "store" and is_d(e.recv)
                and e.key == ("const", key)]

    def loop_conds(e):
        lp = cfg.enclosing(e.stmt, (ast.For, ast.While))
        out = []
        if lp is None:
            return out
        for t, o in cfg.necessary_conditions(e.stmt):
            if inside(t, lp):
                tt = simp(T.of(t))
                while tt[0] == "un" and tt[1] == "not":
                    tt, o = tt[2], not o
                out.append((no_uids(tt), o))
        return out

    # (a) label
    lab = dstores("label")
    ctx.require(len(lab) >= 2, f"{f.qual}: label assignments not found")
    firsts = [e for e in lab if cfg.enclosing(e.stmt, (ast.For, ast.While))
              is None]
    ok_first = len(firsts) == 1 and simp(firsts[0].value) == not_decoy(
        PRIMARY) and not cfg.necessary_conditions(firsts[0].stmt)
    ctx.check(ok_first, "C20a-primary-label", f,
              "label starts as 'primary protein is not a decoy'",
              f"{[show(simp(e.value), 100) for e in firsts]}",
              node=firsts[0].node if firsts else f.node)
    prim = [e for e in dstores("proteins")
            if cfg.enclosing(e.stmt, (ast.For, ast.While)) is None]
    first_list = [e for e in prim if simp(e.value) == ("list", (PRIMARY,))]
    ctx.check(len(first_list) == 1, "C20a-primary-protein", f,
              "the protein list starts with the hit's primary accession",
              f"{[show(simp(e.value), 80) for e in prim]}", node=f.node)
    # where are the accessions collected, and is that what is joined?
    joined = [e for e in prim if e.value[0] == "mcall" and e.value[1] == (
        "const", "\t") and e.value[2] == "join" and len(e.value[3]) == 1]
    apps = [e for e in evs if e.kind == "append" and len(e.args) == 1
            and cfg.enclosing(e.stmt, (ast.For, ast.While)) is not None]

    def container_id(t):
        """'var:<name>' or 'slot:proteins' for the list of accessions"""
        t = no_uids(simp(t))
        while t[0] in ("mut", "mutsub", "store"):
            t = t[1]
        if t[0] == "var":
            return "var:" + t[1]
        if t[0] == "sub" and t[2] == ("const", "proteins") and \
                is_d(t[1]):
            return "slot:proteins"
        return None

    for upd in lab:
        if upd in firsts:
            continue
        cs = loop_conds(upd)
        tag_conds = [(t, o) for t, o in cs if t[0] == "cmp"
                     and t[1] in ("in", "not in")
                     and t[2] == ("const", "alternative_protein")]
        in_alt = any((t[1] == "in") == o for t, o in tag_conds)
        ELEM = None
        for t, o in tag_conds:
            if t[3][0] == "attr" and t[3][2] == "tag":
                ELEM = t[3][1]
        ALT = accession(ELEM) if ELEM is not None else None
        LABEL_NOW = [t for t, o in cs if t[0] == "sub" and t[2] == (
            "const", "label") and is_d(t[1]) and o is False]
        v = no_uids(simp(upd.value))
        form_ok = False
        if ALT is not None:
            nd = no_uids(not_decoy(ALT))
            if v == nd and LABEL_NOW:
                form_ok = True
            elif v[0] == "bool" and v[1] == "or" and len(v[2]) == 2 and \
                    nd in v[2] and any(
                        x[0] == "sub" and x[2] == ("const", "label")
                        and is_d(x[1]) for x in v[2]):
                form_ok = True
        ctx.check(in_alt and form_ok, "C20a-or-accumulator", f,
                  "an alternative protein can only turn a decoy label into "
                  "a target label (label := label or not decoy(alt))",
                  f"update to {show(v, 100)} under "
                  f"{[(show(t, 50), o) for t, o in cs]}: a PSM with a "
                  "target primary protein and a decoy alternative (or the "
                  "reverse) is mislabelled", node=upd.node)
        mine = [e for e in apps if ALT is not None
                and no_uids(simp(e.args[0])) == no_uids(ALT)]
        ok_app = len(mine) == 1 and len(joined) == 1 and \
            container_id(mine[0].recv) is not None and \
            container_id(mine[0].recv) == container_id(
                joined[0].value[3][0]) and \
            [c for c in loop_conds(mine[0])] == [
                c for c in cs if c not in [(t, False) for t in LABEL_NOW]] \
            and cfg.every_path_passes(
                cfg.entry.id, cfg.node_of(upd.stmt).id,
                {cfg.node_of(mine[0].stmt).id})
        ctx.check(ok_app, "C20a-alternative-collected", f,
                  "every alternative accession is appended (to the list "
                  "that is joined into the result) before it is judged",
                  f"appends: {[show(simp(e.args[0]), 80) for e in apps]}",
                  node=upd.node)
    # (b) modification insertion
    Tn = Terms(du)
    mloops = [n for n in ast.walk(f.node) if isinstance(n, ast.For)
              and any(x == ("const", "{*}mod_aminoacid_mass")
                      for x in walk_term(Tn.of(n.iter)))]
    ctx.require(len(mloops) == 1, f"{f.qual}: modification loop not found")
    ml = mloops[0]
    body = {ast.unparse(s.targets[0]): s for s in ml.body
            if isinstance(s, ast.Assign)}
    augs = [s for s in ml.body if isinstance(s, ast.AugAssign)]
    if not augs:
        # the other sound idiom: insert from the back, positions taken as
        # they are - only valid when the modifications are visited in
        # strictly decreasing NUMERIC position
        it = Tn.of(ml.iter)
        ok_back = False
        why = f"modifications are visited as {show(it, 120)}"
        if it[0] == "call" and it[1] == "builtins.sorted":
            kws = dict(it[3])
            key = kws.get("key")
            if kws.get("reverse") == ("const", True) and key is not None \
                    and key[0] == "lambda" and len(key[1]) == 1:
                pos = ("mcall", ("lparam", key[1][0]), "get",
                       (("const", "position"),), ())
                ok_back = key[2] in (
                    ("call", "builtins.int", (pos,), ()),
                    ("call", "builtins.float", (pos,), ()))
                if not ok_back:
                    why = (f"modifications are sorted by {show(key[2], 60)}"
                           ": positions are compared as text ('10' < '9'), "
                           "so with ten or more residues an earlier "
                           "insertion shifts a later one")
        ctx.check(ok_back, "C20b-insert-position", f,
                  "without a running offset the modifications are inserted "
                  "in decreasing numeric position", why, node=ml)
        if not ok_back:
            return
        raise AnalysisError(f"{f.qual}: back-to-front insertion recognised; "
                            "the remaining C20b clauses were written for "
                            "the running-offset idiom and need re-reading")
    ctx.require(len(augs) == 1 and isinstance(augs[0].op, ast.Add),
                f"{f.qual}: running offset update not found")
    off = ast.unparse(augs[0].target)
    idxs = [k for k, s in body.items()
            if ast.unparse(s.value) in (f"{off} + int(mod.get('position'))",
                                        f"int(mod.get('position')) + {off}")]
    ctx.check(len(idxs) == 1, "C20b-insert-position", f,
              "insertion index = running offset + the modification's "
              "position",
              f"{ {k: ast.unparse(v.value)[:50] for k, v in body.items()} }",
              node=ml)
    ins = [s for k, s in body.items() if isinstance(s.value, ast.BinOp)
           and k not in idxs and "[" in ast.unparse(s.value)]
    ok_ins = False
    inserted_len = None
    if len(ins) == 1 and idxs:
        s = ins[0]
        tgt = ast.unparse(s.targets[0])
        parts = []

        def flat(e):
            if isinstance(e, ast.BinOp) and isinstance(e.op, ast.Add):
                flat(e.left)
                flat(e.right)
            else:
                parts.append(e)
        flat(s.value)
        txt = [ast.unparse(p) for p in parts]
        if len(parts) >= 3 and txt[0] == f"{tgt}[:{idxs[0]}]" and \
                txt[-1] == f"{tgt}[{idxs[0]}:]":
            ok_ins = True
            consts = 0
            names = []
            for p in parts[1:-1]:
                if isinstance(p, ast.Constant) and isinstance(p.value, str):
                    consts += len(p.value)
                else:
                    names.append(ast.unparse(p))
            inserted_len = (consts, sorted(names))
    ctx.check(ok_ins, "C20b-insert-at-one-position", f,
              "the modified peptide is prefix[:idx] + text + suffix[idx:] "
              "with the same idx on both sides",
              f"{[ast.unparse(s)[:100] for s in ins]}", node=ml)
    if inserted_len:
        consts, names = inserted_len
        inc = augs[0].value
        # increment as const + sum(len(name))
        inc_const = 0
        inc_names = []

        def flat2(e):
            nonlocal inc_const
            if isinstance(e, ast.BinOp) and isinstance(e.op, ast.Add):
                flat2(e.left)
                flat2(e.right)
            elif isinstance(e, ast.Constant) and isinstance(e.value, int):
                inc_const += e.value
            elif isinstance(e, ast.Call) and ast.unparse(e.func) == "len":
                inc_names.append(ast.unparse(e.args[0]))
            else:
                inc_names.append("?" + ast.unparse(e))
        flat2(inc)
        ok = inc_const == consts and sorted(inc_names) == names
        ctx.check(ok, "C20b-offset-equals-inserted-length", f,
                  "the running offset grows by exactly the length of the "
                  "inserted text",
                  f"inserted text has {consts} literal characters + "
                  f"len({names}); the offset grows by {inc_const} + "
                  f"len({inc_names}): later modifications of the same "
                  "peptide land on the wrong residue", node=augs[0])
    # offset starts at 0 for every modification_info
    zero = [n for n in ast.walk(f.node) if isinstance(n, ast.Assign)
            and ast.unparse(n.targets[0]) == off
            and const_value(n.value) == 0]
    ok_z = len(zero) == 1 and cfg.every_path_passes(
        cfg.entry.id, cfg.node_of(ml).id, {cfg.node_of(zero[0]).id}) and \
        not any(x is zero[0] for x in ast.walk(ml))
    ctx.check(ok_z, "C20b-offset-starts-at-zero", f,
              "the running offset is reset to 0 before the modifications of "
              "a hit", "offset not initialised to 0 before the loop",
              node=ml)
    fin = [s for s in ast.walk(f.node) if isinstance(s, ast.Assign)
           and ast.unparse(s.targets[0]) == f"{d}['peptide']"
           and not isinstance(s.value, ast.Call)]
    ctx.check(len(fin) == 1 and ins and ast.unparse(fin[0].value) ==
              ast.unparse(ins[0].targets[0]), "C20b-modified-peptide-stored",
              f, "the modified peptide replaces the plain one",
              f"{[ast.unparse(x)[:60] for x in fin]}", node=f.node)
    # search scores become features; proteins joined
    other = [n for n in ast.walk(f.node) if isinstance(n, ast.Assign)
             and ast.unparse(n.targets[0]) == f"{d}[element.get('name')]"]
    ctx.check(len(other) == 1 and ast.unparse(other[0].value) ==
              "element.get('value')", "C20c-search-scores", f,
              "every search_score becomes a feature under its own name",
              f"{[ast.unparse(o)[:60] for o in other]}", node=f.node)
    rets = [n for n in ast.walk(f.node) if isinstance(n, ast.Return)]
    ctx.check(len(rets) == 1 and ast.unparse(rets[0].value) == d,
              "C20c-one-dict-per-hit", f, "one dictionary is returned per "
              "hit", f"{[ast.unparse(r) for r in rets]}", node=f.node)
    q = [n for n in ast.walk(f.node) if isinstance(n, ast.Assign)
         and ast.unparse(n.targets[0]) == "queries"]
    ok_q = len(q) == 1 and sorted(
        const_value(e) for e in q[0].value.elts) == [
            "{*}alternative_protein", "{*}modification_info",
            "{*}search_score"]
    ctx.check(ok_q, "C20c-elements-visited", f,
              "modification_info, search_score and alternative_protein "
              "children are all visited",
              f"{[ast.unparse(x.value) for x in q]}", node=f.node)


def _nesting(ctx):
    prog = ctx.prog
    run = prog.func(PX + "_parse_msms_run")
    spec = prog.func(PX + "_parse_spectrum")
    top = prog.func(PX + "_parse_pepxml")
    for g, inner, loops_expected in ((run, "_parse_spectrum", 1),
                                     (spec, "_parse_psm", 2)):
        ys = [n for n in ast.walk(g.node) if isinstance(n, ast.Yield)]
        cfg = CFG(g.node)
        ok = len(ys) == 1 and isinstance(ys[0].value, ast.Call) and \
            ast.unparse(ys[0].value.func) == inner and not [
                x for x in cfg.guards(ys[0])]
        loops = cfg.enclosing_all(ys[0], (ast.For,)) if ys else []
        ok = ok and len(loops) == loops_expected and not any(
            isinstance(x, (ast.Break, ast.Continue, ast.Return))
            for lp in loops for x in ast.walk(lp))
        ctx.check(ok, "C20c-every-element-yielded", g,
                  f"{g.name} yields {inner}(...) for every element, "
                  "unconditionally",
                  "elements are filtered, skipped or the loop can stop "
                  "early", node=g.node)
    # iterated tags
    want = {run.qual: ["{*}spectrum_query"],
            spec.qual: ["{*}search_hit", "{*}search_result"]}
    for g in (run, spec):
        tags = sorted(const_value(n.args[0]) for n in ast.walk(g.node)
                      if isinstance(n, ast.Call) and isinstance(
                          n.func, ast.Attribute) and n.func.attr == "iter"
                      and n.args)
        ctx.check(tags == want[g.qual], "C20c-iterated-tags", g,
                  f"iterates {want[g.qual]}", f"iterates {tags}",
                  node=g.node)
    # copies
    cp = [n for n in ast.walk(spec.node) if isinstance(n, ast.Assign)
          and ast.unparse(n.value) == f"{spec.params[1]}.copy()"]
    ctx.check(len(cp) == 1, "C20c-copy-before-mutation", spec,
              "the per-spectrum dictionary is a copy of the run's",
              "run_info is mutated in place", node=spec.node)
    # spectrum attributes
    sT = Terms(DefUse(prog, spec), phi_vars=True)
    attrs = {}
    for e in container_events(spec.node, sT, CFG(spec.node)):
        if e.kind == "store" and e.key[0] == "const":
            attrs[e.key[1]] = e.value
        elif e.kind == "update" and len(e.args) == 1 and \
                e.args[0][0] == "dict":
            for k, v in _dict_items(e.args[0]):
                if k[0] == "const":
                    attrs[k[1]] = v
    SP = ("param", spec.params[0])

    def attr_of(conv, name):
        return ("call", "builtins." + conv,
                (("mcall", SP, "get", (("const", name),), ()),), ())

    want_attrs = {
        "scan": attr_of("int", "end_scan"),
        "charge": attr_of("int", "assumed_charge"),
        "ret_time": attr_of("float", "retention_time_sec"),
        "exp_mass": attr_of("float", "precursor_neutral_mass"),
    }
    ctx.check(attrs == want_attrs, "C20c-spectrum-attributes", spec,
              "scan, charge, retention time and precursor mass come from "
              "their documented attributes", f"{attrs}", node=spec.node)
    # run: data file name = base_name (+ raw_data extension)
    ri = [n for n in ast.walk(run.node) if isinstance(n, ast.Assign)
          and ast.unparse(n.targets[0]) == "run_info"]
    ok_r = len(ri) == 1 and ast.unparse(ri[0].value) == \
        "{'ms_data_file': ms_data_file}"
    bn = [n for n in ast.walk(run.node) if isinstance(n, ast.Assign)
          and ast.unparse(n.targets[0]) == "ms_data_file"]
    ok_r = ok_r and bn and ast.unparse(bn[0].value) == \
        "msms_run.get('base_name')"
    ctx.check(bool(ok_r), "C20c-run-file-name", run,
              "every PSM of a run carries the run's base_name as data file",
              "run info is not {'ms_data_file': base_name}", node=run.node)
    # two flattenings in _parse_pepxml
    txt = ast.unparse(top.node)
    n_flat = txt.count("itertools.chain.from_iterable(")
    maps = [n for n in ast.walk(top.node) if isinstance(n, ast.Call)
            and ast.unparse(n.func) == "map"]
    ok_t = n_flat == 2 and len(maps) == 1 and "from_records" in txt
    du = DefUse(prog, top)
    T = Terms(du)
    fr = [n for n in ast.walk(top.node) if isinstance(n, ast.Call)
          and ast.unparse(n.func).endswith("from_records")]
    if fr:
        t = T.of(fr[0].args[0])
        depth = 0
        x = t
        while x[0] == "call" and x[1] == "itertools.chain.from_iterable":
            depth += 1
            x = x[2][0]
        ok_t = ok_t and depth == 2 and x[0] == "call" and x[1] == \
            "builtins.map"
    ctx.check(ok_t, "C20c-flattened-twice", top,
              "runs of spectra of hits are flattened exactly twice into "
              "one record per hit", f"{n_flat} flattenings", node=top.node)
    it = [n for n in ast.walk(top.node) if isinstance(n, ast.Call)
          and ast.unparse(n.func) == "etree.iterparse"]
    ok_i = len(it) == 1 and const_value({k.arg: k.value for k in
                                         it[0].keywords}.get("tag")) == \
        "{*}msms_run_summary"
    ctx.check(ok_i, "C20c-every-run", top,
              "every msms_run_summary element is parsed",
              f"{[ast.unparse(i)[:80] for i in it]}", node=top.node)


def _read(ctx, f):
    cat = [n for n in ast.walk(f.node) if isinstance(n, ast.Call)
           and ast.unparse(n.func) == "pd.concat"]
    ok = bool(cat) and ast.unparse(cat[0].args[0]) == \
        "[_parse_pepxml(f, decoy_prefix) for f in pepxml_files]"
    ctx.check(ok, "C20c-files-concatenated", f,
              "every file is parsed with the caller's decoy prefix and the "
              "results are concatenated in order",
              f"{[ast.unparse(c)[:100] for c in cat[:1]]}", node=f.node)
    cfg = CFG(f.node)
    raises = [n for n in ast.walk(f.node) if isinstance(n, ast.Raise)]
    ok_r = any("illegal_cols.intersection" in ast.unparse(g[0]) and g[1]
               for r in raises for g in cfg.guards(r))
    ill = [n for n in ast.walk(f.node) if isinstance(n, ast.Assign)
           and ast.unparse(n.targets[0]) == "illegal_cols"]
    ok_r = ok_r and len(ill) == 1 and "Percolator q-Value" in ast.unparse(
        ill[0].value)
    ctx.check(ok_r, "C20c-percolator-output-rejected", f,
              "files that already carry Percolator results are rejected",
              "no raise on Percolator columns", node=f.node)


def _dict_items(t):
    """(key term, value term) pairs of a dict display term"""
    if len(t) == 2 and isinstance(t[1], tuple):
        return [tuple(kv) for kv in t[1] if isinstance(kv, tuple)
                and len(kv) == 2]
    if len(t) == 3:
        return list(zip(t[1], t[2]))
    return []
