"""C20 - PepXML parsing turns every search hit into one faithful PSM."""

from __future__ import annotations

import ast

from ..cfg import CFG
from ..astutil import cond_terms, inside
from ..core import callee_is, AnalysisError, const_value, walk_own
from ..events import container_events, root_name
from ..defuse import DefUse, Terms, show, walk_term
from ..defuse import key as tkey_
from ..tutil import (apply_partials, bound_args, lin, no_uids, simp,
                     strip_materialise,
                     text_parts)

EXPLANATION = (
    "Static analysis of parsers.pepxml._parse_pepxml / _parse_msms_run / "
    "_parse_spectrum / _parse_psm / read_pepxml. (a) label: the initial "
    "label is 'primary protein does not start with the decoy prefix' and "
    "every alternative protein can only turn a decoy label into a target "
    "label (OR-accumulator: the update is guarded by 'not label' or is an "
    "'or'), using the protein that was just appended; all accessions are "
    "collected. (b) modification insertion: each modification is inserted "
    "at offset + position on both sides of the cut, the text inserted is "
    "'[' + mass + ']' and the running offset grows by exactly its length "
    "(2 + len(mass)) by linear normal form; the offset starts at 0 per "
    "modification_info. (c) nesting: runs -> spectra -> hits are produced "
    "by generators that yield for every element without a filter, and "
    "flattened exactly twice; shared dictionaries are copied before being "
    "modified; spectrum attributes (scan, charge, retention time, mass) "
    "and the run's file name are read from the documented attributes; "
    "several files are concatenated and Percolator/PeptideProphet output "
    "is rejected. Also: the per-file frames are stacked with the union of their columns. "
    "NOT decided: lxml semantics, feature transforms.")
TECHNIQUE = ("def-use term matching + linear normal form over string "
             "lengths + generator nesting / alias analysis")

PX = "mokapot.parsers.pepxml."


def run(ctx):
    prog = ctx.prog
    _psm(ctx, prog.func(PX + "_parse_psm"))
    _nesting(ctx)
    _read(ctx, prog.func(PX + "read_pepxml"))


def _psm(ctx, f):
    prog = ctx.prog
    du = DefUse(prog, f)
    T = Terms(du, phi_vars=True)
    cfg = CFG(f.node)
    p_info, p_spec, p_prefix = f.params
    # working dict is a copy of the spectrum info
    cp = [n for n in f.node.body if isinstance(n, ast.Assign)
          and len(n.targets) == 1 and isinstance(n.targets[0], ast.Name)
          and _copy_of(T.of(n.value)) == ("param", p_spec)]
    ctx.check(len(cp) == 1, "C20c-copy-before-mutation", f,
              "the per-hit dictionary is a copy of the spectrum's "
              "dictionary", "spec_info is mutated in place: hits of one "
              "spectrum overwrite each other", node=f.node)
    if len(cp) != 1:
        return
    d = ast.unparse(cp[0].targets[0])
    evs = container_events(f.node, T, cfg)
    PRE = ("param", p_prefix)

    def accession(src, attr="protein"):
        return ("sub", ("mcall", ("mcall", src, "get",
                                  (("const", attr),), ()), "split",
                        (("const", " "),), ()), ("const", 0))

    PRIMARY = accession(("param", p_info))

    def not_decoy(x):
        return ("un", "not", ("mcall", x, "startswith", (PRE,), ()))

    COPY = T.of(cp[0].value)

    def is_d(t):
        while t[0] in ("store", "mut", "mutsub"):
            t = t[1]
        return (t[0] == "var" and t[1] == d) or t == COPY

    if COPY[0] == "dict":
        # entries of the literal the working dict starts as
        from ..events import Event
        for k_, v_ in _dict_items(COPY):
            if k_[0] == "const":
                evs.append(Event("store", COPY, k_, (), {}, cp[0],
                                 cp[0], v_))

    def dstores(key):
        return [e for e in evs if e.kind == "store" and is_d(e.recv)
                and e.key == ("const", key)]

    def loop_conds(e):
        lp = cfg.enclosing(e.stmt, (ast.For, ast.While))
        out = []
        if lp is None:
            return out
        for t, o in cfg.necessary_conditions(e.stmt):
            if inside(t, lp):
                tt = simp(T.of(t))
                while tt[0] == "un" and tt[1] == "not":
                    tt, o = tt[2], not o
                out.append((no_uids(tt), o))
        return out

    # (a) what happens for each kind of child element of a hit - a table
    # over (element kind, label so far, alternative is a decoy), read off
    # the statements executed under that valuation
    from ..chunks import Unknown, ev
    Tn0 = Terms(du)
    eloops = []
    for n in walk_own(f.node):
        if isinstance(n, ast.For):
            it = Tn0.of(n.iter)
            if it[0] == "mcall" and it[1] == ("param", p_info) and \
                    it[2] == "iter":
                eloops.append(n)
    ctx.require(len(eloops) == 1, f"{f.qual}: loop over the hit's child "
                "elements not found")
    el = eloops[0]
    ELEM = ("elem", T.of(el.iter))
    TAG = ("attr", ELEM, "tag")
    ALT = accession(ELEM)
    lab = dstores("label")
    ctx.require(len(lab) >= 2, f"{f.qual}: label assignments not found")
    firsts = [e for e in lab if not inside(e.stmt, el)]
    ok_first = len(firsts) == 1 and simp(firsts[0].value) == not_decoy(
        PRIMARY) and not cfg.necessary_conditions(firsts[0].stmt)
    ctx.check(ok_first, "C20a-primary-label", f,
              "label starts as 'primary protein is not a decoy'",
              f"{[show(simp(e.value), 100) for e in firsts]}",
              node=firsts[0].node if firsts else f.node)
    prim = [e for e in dstores("proteins") if not inside(e.stmt, el)]
    first_list = [e for e in prim if simp(e.value) == ("list", (PRIMARY,))]
    ctx.check(len(first_list) == 1, "C20a-primary-protein", f,
              "the protein list starts with the hit's primary accession",
              f"{[show(simp(e.value), 80) for e in prim]}", node=f.node)
    joined = [e for e in prim if e.value[0] == "mcall" and e.value[1] == (
        "const", "\t") and e.value[2] == "join" and len(e.value[3]) == 1]

    def container_id(t):
        """'var:<name>' or 'slot:proteins' for the list of accessions"""
        t = no_uids(simp(t))
        while t[0] in ("mut", "mutsub", "store"):
            t = t[1]
        if t[0] == "var":
            return "var:" + t[1]
        if t[0] == "sub" and t[2] == ("const", "proteins") and \
                is_d(t[1]):
            return "slot:proteins"
        return None

    in_loop = [e for e in evs if e.stmt is not None and inside(e.stmt, el)]
    first = cfg.node_of(el.body[0]).id
    hdr = cfg.node_of(el).id

    def atoms_for(kind, label_now, alt_decoy, other_decoy=False):
        tag = "{http://regis-web.systemsbiology.net/pepXML}" + kind

        def atoms(t):
            if t == TAG:
                return tag
            t2 = no_uids(simp(t))
            if t2[0] == "sub" and t2[2] == ("const", "label") and \
                    is_d(t2[1]):
                return label_now
            if t2[0] == "mcall" and t2[2] == "startswith" and \
                    t2[3] == (PRE,):
                r = t2[1]
                if r == no_uids(ALT) or (
                        r[0] == "sub" and r[2] in (
                            ("const", -1), ("un", "-", ("const", 1)))):
                    return alt_decoy
                # some other accession (the primary one, an earlier
                # alternative): its own, independent decoy status
                return other_decoy
            raise KeyError(t)
        return atoms

    def executed(at):
        def decide(test):
            if not inside(test, el):
                return None
            return bool(ev(simp(T.of(test)), at))
        vis = cfg.visited_under(first, decide, stop={hdr})
        return [e for e in in_loop if cfg.node_of(e.stmt).id in vis]

    rows, bad_alt, bad_lab, bad_score, bad_mod = [], [], [], [], []
    mod_stores = set()
    try:
        for kind in ("modification_info", "search_score",
                     "alternative_protein"):
            for label_now in (True, False):
                for alt_decoy, other_decoy in ((True, True), (True, False),
                                               (False, True),
                                               (False, False)):
                    at = atoms_for(kind, label_now, alt_decoy, other_decoy)
                    ex = executed(at)
                    apps = [e for e in ex if e.kind == "append"
                            and container_id(e.recv) is not None]
                    labs = [e for e in ex if e.kind == "store"
                            and is_d(e.recv)
                            and e.key == ("const", "label")]
                    peps = [e for e in ex if e.kind == "store"
                            and is_d(e.recv)
                            and e.key == ("const", "peptide")]
                    scores = [e for e in ex if e.kind == "store"
                              and is_d(e.recv) and e.key[0] != "const"]
                    row = (kind, label_now, alt_decoy)
                    if kind == "alternative_protein":
                        ok_a = len(apps) == 1 and no_uids(simp(
                            apps[0].args[0])) == no_uids(ALT) and len(
                                joined) == 1 and container_id(
                                    apps[0].recv) == container_id(
                                        joined[0].value[3][0])
                        if not ok_a or peps or scores:
                            bad_alt.append(row)
                        # label afterwards
                        new = label_now
                        for e in labs:
                            new = bool(ev(no_uids(simp(e.value)), at))
                        if new != (label_now or not alt_decoy):
                            bad_lab.append(row + (new,))
                        # collected before it is judged
                        if ok_a and labs and not cfg.every_path_passes(
                                cfg.entry.id, cfg.node_of(labs[0].stmt).id,
                                {cfg.node_of(apps[0].stmt).id}):
                            bad_alt.append(row + ("judged before collected",))
                    elif kind == "search_score":
                        ok_s = len(scores) == 1 and no_uids(simp(
                            scores[0].key)) == ("mcall", no_uids(ELEM),
                                                "get", (("const", "name"),),
                                                ()) and no_uids(simp(
                                scores[0].value)) == (
                                "mcall", no_uids(ELEM), "get",
                                (("const", "value"),), ())
                        if not ok_s or apps or labs or peps:
                            bad_score.append(row)
                    else:
                        if len(peps) != 1 or apps or labs or scores:
                            bad_mod.append(row)
                        mod_stores.update(id(e.stmt) for e in peps)
    except (Unknown, KeyError) as e:
        raise AnalysisError(f"{f.qual}: a test in the loop over the child "
                            f"elements is outside the evaluated fragment: "
                            f"{str(e)[:100]}")
    ctx.check(not bad_alt, "C20a-alternative-collected", f,
              "every alternative accession is appended (to the list that is "
              "joined into the result) before it is judged",
              f"deviates for (kind, label, alternative is decoy): "
              f"{bad_alt[:3]}", node=el)
    ctx.check(not bad_lab, "C20a-or-accumulator", f,
              "an alternative protein can only turn a decoy label into a "
              "target label (label := label or not decoy(alt))",
              "(kind, label before, alternative is decoy, label after) = "
              f"{bad_lab[:4]}: a PSM with a target primary protein and a "
              "decoy alternative (or the reverse) is mislabelled", node=el)
    ctx.check(not bad_score, "C20c-search-scores", f,
              "every search_score becomes a feature under its own name "
              "(and nothing else happens for it)",
              f"deviates for {bad_score[:3]}", node=el)
    ctx.check(not bad_mod, "C20b-modified-peptide-stored", f,
              "a modification_info element replaces the peptide (and "
              "nothing else happens for it)", f"deviates for {bad_mod[:3]}",
              node=el)
    # (b) modification insertion
    Tn = Terms(du)
    mloops = [n for n in ast.walk(f.node) if isinstance(n, ast.For)
              and any(x == ("const", "{*}mod_aminoacid_mass")
                      for x in walk_term(Tn.of(n.iter)))]
    ctx.require(len(mloops) == 1, f"{f.qual}: modification loop not found")
    ml = mloops[0]
    augs = [s_ for s_ in ast.walk(ml) if isinstance(s_, ast.AugAssign)
            and isinstance(s_.target, ast.Name)]
    # x = x + E is the same running sum as x += E for a number
    plain_incs = [s_ for s_ in ast.walk(ml) if isinstance(s_, ast.Assign)
                  and len(s_.targets) == 1
                  and isinstance(s_.targets[0], ast.Name)
                  and isinstance(s_.value, ast.BinOp)
                  and isinstance(s_.value.op, ast.Add)
                  and any(isinstance(x, ast.Name)
                          and x.id == s_.targets[0].id
                          for x in ast.walk(s_.value))
                  and not any(isinstance(x, (ast.Subscript, ast.Constant))
                              and isinstance(getattr(x, "value", None), str)
                              for x in ast.walk(s_.value))]
    augs = augs + [s_ for s_ in plain_incs
                   if not any(isinstance(x, ast.Subscript)
                              for x in ast.walk(s_.value))]
    if not augs:
        # the other sound idiom: insert from the back, positions taken as
        # they are - only valid when the modifications are visited in
        # strictly decreasing NUMERIC position
        it = Tn.of(ml.iter)
        ok_back = False
        why = f"modifications are visited as {show(it, 120)}"
        if it[0] == "call" and it[1] == "builtins.sorted":
            kws = dict(it[3])
            key = kws.get("key")
            if kws.get("reverse") == ("const", True) and key is not None \
                    and key[0] == "lambda" and len(key[1]) == 1:
                pos = ("mcall", ("lparam", key[1][0]), "get",
                       (("const", "position"),), ())
                ok_back = key[2] in (
                    ("call", "builtins.int", (pos,), ()),
                    ("call", "builtins.float", (pos,), ()))
                if not ok_back:
                    why = (f"modifications are sorted by {show(key[2], 60)}"
                           ": positions are compared as text ('10' < '9'), "
                           "so with ten or more residues an earlier "
                           "insertion shifts a later one")
        ctx.check(ok_back, "C20b-insert-position", f,
                  "without a running offset the modifications are inserted "
                  "in decreasing numeric position", why, node=ml)
        if not ok_back:
            return
        raise AnalysisError(f"{f.qual}: back-to-front insertion recognised; "
                            "the remaining C20b clauses were written for "
                            "the running-offset idiom and need re-reading")
    # the running offset is only right when the modifications are visited
    # in increasing numeric position: document order (as the format lists
    # them), or an explicit numeric sort
    it = strip_materialise(Tn.of(ml.iter))
    ok_src, why_src = True, ""
    if it[0] == "call" and it[1] == "builtins.sorted":
        kws = dict(it[3])
        key = kws.get("key")
        pos_ok = False
        if key is not None and key[0] == "lambda" and len(key[1]) == 1:
            pos = ("mcall", ("lparam", key[1][0]), "get",
                   (("const", "position"),), ())
            pos_ok = key[2] in (("call", "builtins.int", (pos,), ()),
                                ("call", "builtins.float", (pos,), ()))
        if kws.get("reverse", ("const", False)) != ("const", False):
            ok_src, why_src = False, (
                "modifications are visited in decreasing order while a "
                "running offset is added: every insertion after the first "
                "lands too far right")
        elif not pos_ok:
            ok_src, why_src = False, (
                "modifications are sorted by "
                f"{show(key[2], 60) if key else 'their element order'}: "
                "positions are compared as text ('10' < '9'), so a later "
                "residue is handled first and the running offset is applied "
                "to the wrong insertions")
    elif it[0] == "call" and it[1] == "builtins.reversed":
        ok_src, why_src = False, (
            "modifications are visited back to front while a running "
            "offset is added")
    elif not (it[0] == "mcall" and it[2] in ("iter", "findall", "iterfind")):
        raise AnalysisError(f"{f.qual}: source of the modification loop "
                            f"not recognised: {show(it, 100)}")
    ctx.check(ok_src, "C20b-visited-in-position-order", f,
              "modifications are visited in document order or sorted by "
              "numeric position", why_src, node=ml)
    Tv = Terms(du, phi_vars=True)
    MOD = ("elem", Tv.of(ml.iter))
    POS = ("call", "builtins.int",
           (("mcall", MOD, "get", (("const", "position"),), ()),), ())
    none = ("const", None)
    # the loop-carried peptide string: P = P[:i] + text + P[i:]
    cands = []
    for d_ in du.defs:
        if d_.kind != "assign" or d_.node is None or not inside(
                d_.node, ml) or not isinstance(d_.node, ast.Assign):
            continue
        parts = text_parts(Tv.of_def(d_))
        if len(parts) >= 3 and parts[0][0] == "sub" and \
                parts[-1][0] == "sub" and parts[0][1][:2] == (
                    "var", d_.name) and parts[-1][1][:2] == ("var", d_.name):
            cands.append((d_, parts))
    ctx.require(len(cands) == 1, f"{f.qual}: insertion into the running "
                f"peptide string not found ({len(cands)} candidates)")
    pdef, parts = cands[0]
    head, tail_ = parts[0][2], parts[-1][2]
    ok_ins = (head[0] == "slice" and tail_[0] == "slice"
              and head[1] == none and tail_[2] == none
              and head[3] == none and tail_[3] == none
              and head[2] == tail_[1])
    ctx.check(ok_ins, "C20b-insert-at-one-position", f,
              "the modified peptide is prefix[:idx] + text + suffix[idx:] "
              "with the same idx on both sides",
              f"pieces: {[show(x, 50) for x in parts]}", node=pdef.node)
    IDX = head[2]
    li = lin(IDX)
    offs = [(li.terms[k], c) for k, c in li.atoms.items()
            if li.terms[k][0] == "var"]
    rest = [(li.terms[k], c) for k, c in li.atoms.items()
            if li.terms[k][0] != "var"]
    ok_pos = li.const == 0 and len(offs) == 1 and offs[0][1] == 1 and \
        rest == [(POS, 1)]
    ctx.check(ok_pos, "C20b-insert-position", f,
              "insertion index = running offset + the modification's "
              "position", f"index is {li!r}", node=pdef.node)
    if not ok_pos:
        return
    off = offs[0][0][1]
    mid = parts[1:-1]
    consts = sum(len(x[1]) for x in mid if x[0] == "const"
                 and isinstance(x[1], str))
    texts = [x for x in mid if not (x[0] == "const"
                                    and isinstance(x[1], str))]
    def tgt_of(a_):
        return a_.target.id if isinstance(a_, ast.AugAssign) else \
            a_.targets[0].id
    incs = [a_ for a_ in augs if tgt_of(a_) == off and (
        isinstance(a_, ast.Assign) or isinstance(a_.op, ast.Add))]
    ctx.require(len(incs) == 1, f"{f.qual}: running offset update not found")
    from ..tutil import lin_with_lengths, strlen_lin
    linc = lin_with_lengths(no_uids(Tv.of(incs[0].value)))
    if isinstance(incs[0], ast.Assign):
        # x = x + E: the increment is the value minus x itself
        own = [k for k, t_ in linc.terms.items()
               if t_[0] in ("var", "rec") and t_[1] == off]
        ctx.require(len(own) == 1 and linc.atoms.get(own[0]) == 1,
                    f"{f.qual}: running offset update is not offset + E")
        minus = Lin_zero()
        minus.atoms = {own[0]: -1}
        linc = linc + minus
    want = Lin_zero()
    for x in mid:
        want = want + strlen_lin(no_uids(x))
    ok = linc == want
    ctx.check(ok, "C20b-offset-equals-inserted-length", f,
              "the running offset grows by exactly the length of the "
              "inserted text",
              f"inserted text has {consts} literal characters + "
              f"{[show(x, 30) for x in texts]}; the offset grows by "
              f"{linc!r}: later modifications of the same "
              "peptide land on the wrong residue", node=incs[0])
    # offset starts at 0 for every modification_info
    zero = [d_ for d_ in du.defs if d_.name == off and d_.kind == "assign"
            and d_.node is not None and not inside(d_.node, ml)]
    ok_z = len(zero) == 1 and Tv.of_def(zero[0]) == ("const", 0) and \
        cfg.every_path_passes(cfg.entry.id, cfg.node_of(ml).id,
                              {cfg.node_of(zero[0].node).id})
    if ok_z:
        el = cfg.enclosing(ml, (ast.For, ast.While))
        ok_z = el is None or inside(zero[0].node, el)
    ctx.check(ok_z, "C20b-offset-starts-at-zero", f,
              "the running offset is reset to 0 before the modifications of "
              "a hit", "offset not initialised to 0 before the loop",
              node=ml)
    fin = [e for e in evs if e.kind == "store" and is_d(e.recv)
           and e.key == ("const", "peptide")
           and cfg.enclosing(e.stmt, (ast.For, ast.While)) is not None]
    ctx.check(len(fin) == 1 and root_name(fin[0].value) == pdef.name,
              "C20b-modified-peptide-stored",
              f, "the modified peptide replaces the plain one",
              f"{[show(e.value, 60) for e in fin]}", node=f.node)
    rets = [n for n in ast.walk(f.node) if isinstance(n, ast.Return)]
    ctx.check(len(rets) == 1 and ast.unparse(rets[0].value) == d,
              "C20c-one-dict-per-hit", f, "one dictionary is returned per "
              "hit", f"{[ast.unparse(r) for r in rets]}", node=f.node)
    # the loop over a hit's children asks for all three kinds of element
    el = cfg.enclosing(ml, (ast.For,))
    tags = []
    if el is not None:
        it = Tn.of(el.iter)
        if it[0] == "mcall" and it[2] == "iter":
            for a_ in it[3]:
                if a_[0] == "star" and a_[1][0] in ("list", "tuple"):
                    tags.extend(x[1] for x in a_[1][1] if x[0] == "const")
                elif a_[0] == "const":
                    tags.append(a_[1])
    ctx.check(sorted(tags) == [
        "{*}alternative_protein", "{*}modification_info",
        "{*}search_score"], "C20c-elements-visited", f,
        "modification_info, search_score and alternative_protein "
        "children are all visited", f"iterated tags: {tags}", node=f.node)


def _nesting(ctx):
    prog = ctx.prog
    run = prog.func(PX + "_parse_msms_run")
    spec = prog.func(PX + "_parse_spectrum")
    top = prog.func(PX + "_parse_pepxml")
    for g, inner, loops_expected in ((run, "_parse_spectrum", 1),
                                     (spec, "_parse_psm", 2)):
        gT = Terms(DefUse(prog, g))
        cfg = CFG(g.node)
        sites = []
        for n in walk_own(g.node):
            if isinstance(n, ast.Yield) and n.value is not None:
                t = apply_partials(gT.of(n.value))
                if t[0] == "call" and t[1] == PX + inner:
                    sites.append((n, "yield"))
                else:
                    sites.append((n, None))
            elif isinstance(n, ast.YieldFrom):
                t = apply_partials(gT.of(n.value))
                fn = t[2][0] if t[0] == "call" and t[1] == "builtins.map" \
                    and len(t[2]) == 2 else None
                ok_fn = fn is not None and (
                    fn in (("name", PX + inner), ("free", PX + inner)) or (
                        fn[0] == "call" and fn[1] == "functools.partial"
                        and fn[2][:1] in ((("name", PX + inner),),
                                          (("free", PX + inner),))))
                if not ok_fn and t[0] == "comp" and t[1] in (
                        "list", "gen") and len(t[3]) == 1 and \
                        not t[3][0][2] and t[2][0] == "call" and \
                        t[2][1] == PX + inner and any(
                            a == ("elem", t[3][0][1]) for a in t[2][2]):
                    # (inner(x) for x in X): the same map, spelled out
                    ok_fn = True
                sites.append((n, "map" if ok_fn else None))
        ctx.require(sites and all(k is not None for _n, k in sites),
                    f"{g.qual}: what is yielded is not {inner}(...) per "
                    "element in a recognised form; rule C20c needs "
                    "re-reading")
        ok = len(sites) == 1
        y = sites[0][0]
        loops = cfg.enclosing_all(y, (ast.For, ast.While))
        ok = ok and not cfg.necessary_conditions(cfg.stmt_of(y)) and not any(
            isinstance(x, (ast.Break, ast.Continue, ast.Return))
            for lp in loops for x in ast.walk(lp)) and not any(
            isinstance(lp, ast.While) for lp in loops)
        ctx.check(ok, "C20c-every-element-yielded", g,
                  f"{g.name} yields {inner}(...) for every element, "
                  "unconditionally",
                  "elements are filtered, skipped or the loop can stop "
                  "early", node=g.node)
    # iterated tags
    want = {run.qual: ["{*}spectrum_query"],
            spec.qual: ["{*}search_hit", "{*}search_result"]}
    for g in (run, spec):
        tags = sorted(const_value(n.args[0]) for n in ast.walk(g.node)
                      if isinstance(n, ast.Call) and isinstance(
                          n.func, ast.Attribute) and n.func.attr == "iter"
                      and n.args)
        ctx.check(tags == want[g.qual], "C20c-iterated-tags", g,
                  f"iterates {want[g.qual]}", f"iterates {tags}",
                  node=g.node)
    # copies
    sT = Terms(DefUse(prog, spec), phi_vars=True)
    RUNINFO = ("param", spec.params[1])
    cp = [n for n in walk_own(spec.node) if isinstance(n, ast.Assign)
          and _copy_of(sT.of(n.value)) == RUNINFO]
    ctx.check(len(cp) == 1, "C20c-copy-before-mutation", spec,
              "the per-spectrum dictionary is a copy of the run's",
              "run_info is mutated in place", node=spec.node)
    # spectrum attributes
    attrs = {}
    for n in cp:
        t = sT.of(n.value)
        if t[0] == "dict":
            for k, v in _dict_items(t):
                if k[0] == "const":
                    attrs[k[1]] = v
    for e in container_events(spec.node, sT, CFG(spec.node)):
        if e.kind == "store" and e.key[0] == "const":
            attrs[e.key[1]] = e.value
        elif e.kind == "update":
            # d.update({...}) / d.update(k=v, ...) / both
            if len(e.args) == 1 and e.args[0][0] == "dict":
                for k, v in _dict_items(e.args[0]):
                    if k[0] == "const":
                        attrs[k[1]] = v
            for k, v in dict(e.kwargs or {}).items():
                if k != "**":
                    attrs[k] = v
    SP = ("param", spec.params[0])

    def attr_of(conv, name):
        return ("call", "builtins." + conv,
                (("mcall", SP, "get", (("const", name),), ()),), ())

    want_attrs = {
        "scan": attr_of("int", "end_scan"),
        "charge": attr_of("int", "assumed_charge"),
        "ret_time": attr_of("float", "retention_time_sec"),
        "exp_mass": attr_of("float", "precursor_neutral_mass"),
    }
    ctx.check(attrs == want_attrs, "C20c-spectrum-attributes", spec,
              "scan, charge, retention time and precursor mass come from "
              "their documented attributes", f"{attrs}", node=spec.node)
    # run: data file name = base_name (+ raw_data extension)
    rT = Terms(DefUse(prog, run))
    infos = []
    for n in walk_own(run.node):
        if isinstance(n, ast.Call):
            t = apply_partials(rT.of(n))
            if t[0] == "call" and t[1] == PX + "_parse_spectrum":
                b_ = bound_args(prog, t) or {}
                if "run_info" in b_:
                    infos.append(b_["run_info"])
            elif t[0] == "call" and t[1] == "functools.partial" and \
                    t[2][:1] in ((("name", PX + "_parse_spectrum"),),
                                 (("free", PX + "_parse_spectrum"),)):
                kw_ = dict(t[3])
                if "run_info" in kw_:
                    infos.append(kw_["run_info"])
    ctx.require(infos, f"{run.qual}: run info handed to _parse_spectrum "
                "not found")

    def leaves(t):
        if t[0] == "phi":
            return [y for x in t[1] for y in leaves(x)]
        if t[0] == "ifexp":
            return leaves(t[2]) + leaves(t[3])
        return [t]

    ok_r = True
    names = []
    for info in infos:
        for d_ in leaves(info):
            items = dict((k[1], v) for k, v in _dict_items(d_)
                         if k[0] == "const") if d_[0] == "dict" else {}
            if set(items) != {"ms_data_file"}:
                ok_r = False
                continue
            names.extend(leaves(items["ms_data_file"]))

    def is_base(x):
        return x[0] == "mcall" and x[2] == "get" and x[3] == (
            ("const", "base_name"),)

    def is_ext(x):
        return x[0] == "mcall" and x[2] == "get" and x[3] == (
            ("const", "raw_data"),)

    ok_r = ok_r and bool(names) and all(
        is_base(x) or (x[0] == "bin" and x[1] == "+" and all(
            is_base(y) or is_ext(y) or y[0] == "phi"
            for y in (x[2], x[3]))) for x in names) and any(
        is_base(x) or (x[0] == "bin" and is_base(x[2])) or any(
            is_base(z) for y in (x[2:4] if x[0] == "bin" else ())
            for z in leaves(y)) for x in names)
    ctx.check(bool(ok_r), "C20c-run-file-name", run,
              "every PSM of a run carries the run's base_name as data file",
              f"run info is {[show(i, 120) for i in infos]}", node=run.node)
    # two flattenings in _parse_pepxml: records = flatten(flatten(
    #   run parser mapped over the runs of the file))
    from ..tutil import flattened_of
    du = DefUse(prog, top)
    T = Terms(du)
    fr = [(t_, n) for n in ast.walk(top.node) if isinstance(n, ast.Call)
          for t_ in [T.of(n)] if t_[0] == "call"
          and t_[1].endswith("DataFrame.from_records") and t_[2]]
    ctx.require(len(fr) == 1, f"{top.qual}: DataFrame.from_records call "
                "not found")
    x = fr[0][0][2][0]
    depth = 0
    while flattened_of(x) is not None:
        depth += 1
        x = flattened_of(x)
    n_flat = depth

    def run_parser(t):
        """_parse_msms_run, directly or through functools.partial"""
        if t[0] in ("name", "free") and t[1].endswith("_parse_msms_run"):
            return True
        return t[0] == "call" and t[1] == "functools.partial" and t[2] \
            and run_parser(t[2][0])

    mapped = None
    if x[0] == "call" and x[1] == "builtins.map" and len(x[2]) == 2 and \
            run_parser(x[2][0]):
        mapped = x[2][1]
    elif x[0] == "comp" and x[1] in ("list", "gen") and len(x[3]) == 1 and \
            not x[3][0][2]:
        elt, src = x[2], x[3][0][1]
        if elt[0] == "callv" and run_parser(elt[1]) and \
                ("elem", src) in elt[2]:
            mapped = src
        elif elt[0] == "call" and elt[1].endswith("_parse_msms_run") and \
                elt[2] and elt[2][0] == ("elem", src):
            mapped = src
    ok_t = depth == 2 and mapped is not None and any(
        y[0] == "call" and y[1].endswith("etree.iterparse")
        for y in walk_term(mapped))
    ctx.check(ok_t, "C20c-flattened-twice", top,
              "runs of spectra of hits are flattened exactly twice into "
              "one record per hit", f"{n_flat} flattenings", node=top.node)
    it = [n for n in ast.walk(top.node) if isinstance(n, ast.Call)
          and callee_is(ctx.prog, top, n, "lxml.etree.iterparse", "etree.iterparse")]
    ok_i = len(it) == 1 and const_value({k.arg: k.value for k in
                                         it[0].keywords}.get("tag")) == \
        "{*}msms_run_summary"
    ctx.check(ok_i, "C20c-every-run", top,
              "every msms_run_summary element is parsed",
              f"{[ast.unparse(i)[:80] for i in it]}", node=top.node)


def Lin_zero():
    from ..tutil import Lin
    return Lin({}, 0)


def _read(ctx, f):
    """read_pepxml: every file is parsed (with the caller's prefix) and the
    frames are concatenated in order; files carrying Percolator results are
    rejected - judged on terms and by evaluating the rejection test for a
    column set with and without such a column."""
    from ..chunks import Unknown, ev
    from ..proto import Calls
    from ..tutil import bound_args, normalise, one_to_one
    prog = ctx.prog
    du = DefUse(prog, f)
    T = Terms(du)
    cfg = CFG(f.node)
    c = Calls(prog, f, du=du, T=T, cfg=cfg)
    cat = c.calls("pandas.concat")
    ok = False
    why = f"{[show(t, 100) for t, _n in cat[:1]]}"
    FRAMES = None
    cat = [x for x in cat if x[0][2] and any(
        isinstance(y, tuple) and y[:2] == ("call", PX + "_parse_pepxml")
        for y in walk_term(x[0][2][0])) and not any(
        isinstance(y, tuple) and y[:2] == ("call", "pandas.concat")
        for y in walk_term(x[0][2][0]))]
    if cat and cat[0][0][2]:
        X = normalise(cat[0][0][2][0])
        base = one_to_one(X)
        files = ("param", f.params[0])
        if base is not None and base[0] == "call" and \
                base[1] == "mokapot.utils.tuplize" and base[2] == (files,):
            base = files
        if X[0] == "comp" and len(X[3]) == 1 and not X[3][0][2] and \
                base == files:
            e = X[2]
            b = bound_args(prog, e) if e[0] == "call" else None
            pp = prog.func(PX + "_parse_pepxml").params
            ok = (b is not None and e[1] == PX + "_parse_pepxml"
                  and b.get(pp[0]) == ("elem", X[3][0][1])
                  and b.get(pp[1]) == ("param", "decoy_prefix"))
            FRAMES = cat[0][0]
    if FRAMES is not None:
        kw_ = dict(FRAMES[3])
        keeps_all = kw_.get("join", ("const", "outer")) == (
            "const", "outer") and kw_.get("axis", ("const", 0)) in (
            ("const", 0), ("const", "index"))
        ctx.check(keeps_all, "C20c-every-score-column-kept", f,
                  "the per-file frames are stacked row-wise with the union "
                  "of their columns",
                  f"pd.concat(..., join={show(kw_.get('join', ('const', 'outer')), 20)}"
                  f", axis={show(kw_.get('axis', ('const', 0)), 20)}): a "
                  "search score that one of the files lacks disappears for "
                  "every hit (and the Percolator-output check no longer "
                  "sees the columns it looks for)", node=cat[0][1])
    ctx.check(ok, "C20c-files-concatenated", f,
              "every file is parsed with the caller's decoy prefix and the "
              "results are concatenated in order", why, node=f.node)
    raises = [n for n in walk_own(f.node) if isinstance(n, ast.Raise)]
    PERC = {"Percolator q-Value", "Percolator PEP", "Percolator SVMScore"}
    ok_r = False
    why_r = "no raise on Percolator columns"
    COLS = None
    if FRAMES is not None:
        COLS = ("attr", FRAMES, "columns")
    for r in raises:
        conds = cond_terms(cfg, T, r)
        names = {x[1] for t_, _o in conds for x in walk_term(t_)
                 if isinstance(x, tuple) and len(x) == 2 and x[0] == "const"
                 and isinstance(x[1], str)}
        if not (names & PERC) or COLS is None:
            continue
        res = []
        try:
            for cols in (["scan", "hyperscore"],
                         ["scan", "Percolator q-Value"],
                         ["Percolator PEP"], ["x", "Percolator SVMScore"]):
                def atoms(t, cols=cols):
                    if t == COLS:
                        return list(cols)
                    if t[0] == "call" and t[1] in (
                            "builtins.set", "builtins.list",
                            "builtins.frozenset") and t[2] == (COLS,):
                        return set(cols) if t[1] != "builtins.list" \
                            else list(cols)
                    raise KeyError(t)
                res.append(all(bool(ev(t_, atoms)) == o for t_, o in conds))
        except (Unknown, KeyError) as e:
            raise AnalysisError(f"{f.qual}: the rejection test is outside "
                                f"the evaluated fragment: {str(e)[:80]}")
        ok_r = res == [False, True, True, True]
        why_r = (f"rejection for (no, q-Value, PEP, SVMScore) column sets: "
                 f"{res}")
    ctx.check(ok_r, "C20c-percolator-output-rejected", f,
              "files that already carry Percolator results are rejected",
              why_r, node=f.node)


def _dict_items(t):
    """(key term, value term) pairs of a dict display term"""
    if len(t) == 2 and isinstance(t[1], tuple):
        return [tuple(kv) for kv in t[1] if isinstance(kv, tuple)
                and len(kv) == 2]
    if len(t) == 3:
        return list(zip(t[1], t[2]))
    return []


def _copy_of(t):
    """X when the term is a fresh dict with X's entries: X.copy(), dict(X),
    {**X, ...}; None otherwise"""
    if t[0] == "mcall" and t[2] == "copy" and not t[3]:
        return t[1]
    if t[0] == "call" and t[1] == "builtins.dict" and len(t[2]) == 1:
        return t[2][0]
    if t[0] == "dict" and len(t) == 3 and t[1] and t[1][0][0] == "star":
        return t[2][0]
    return None
