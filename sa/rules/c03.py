"""C03 - competition and rollup keep exactly the best PSM per spectrum/entity."""

from __future__ import annotations

import ast

from ..astutil import CondUnknown, eval_cond, inside
from ..cfg import CFG, cond_strings
from ..core import callee_is, AnalysisError, const_value, walk_own
from ..defuse import DefUse, Terms, show, walk_term
from ..defuse import key as tkey
from ..tutil import no_uids, data_elem
from ..flow import Flow
from ..paths import path_variants, return_cases
from ..events import root_name
from ..tutil import (EvUnknown, ev_term, map_term, subst_params, bound_args, seq_parts, concat_parts, mapped_over, np_call,
                     positional, seq_elems, term_strings, literal_parts,
                     merge_fstr, expand_const_comp, simp, items_as_subs)

EXPLANATION = (
    "Static analysis of confidence.assign_confidence / "
    "create_sorted_file_iterator / _save_sorted_metadata_chunks / "
    "LinearConfidence._assign_confidence / Confidence.write_to_disk, "
    "confidence_writer.write_confidences, brew_rollup.do_rollup, "
    "mokapot.main and config._parser. (a) one descending stream: the "
    "per-chunk sort is descending on the score column, the merge selects "
    "the maximum head (decided in C14), the rollup's table merger is in "
    "descending mode on 'score'. (b) first-seen-wins: on every CFG path to "
    "the row-is-kept statement of a level the row's key was tested against "
    "that level's seen-set and added to it; the key is built from that "
    "level's hash columns of that row; 'psms' is the first level, a seen "
    "spectrum breaks out of the level loop (the loser contributes to no "
    "higher level) while a seen higher entity continues; the rollup tool "
    "treats levels independently (no break). (c) the de-duplication switch "
    "governs every spectrum-level duplicate removal: inter-procedural flag "
    "tracing shows each drop_duplicates(spectrum columns) and the "
    "seen-spectrum skip are controlled only by assign_confidence."
    "deduplication, and each CLI option reaches the matching argument of "
    "assign_confidence with the right polarity. (d) targets go to position "
    "0 / the 'targets.' path under the target mask, decoys to position 1 "
    "under its negation, in both writers. (e) q-values are computed from "
    "the level file that write_to_disk re-reads, chunk sizes of zipped "
    "streams agree, renaming pairs lists of equal shape. (f) per-collection "
    "state is created inside the collection loop and file names carry the "
    "Also: the rollup reads only files it did not write itself (shared with C09). "
    "collection prefix. NOT decided: the winner for concrete data.")
TECHNIQUE = ("CFG must-pass-through + def-use term matching + "
             "inter-procedural flag tracing + sibling agreement")

AC = "mokapot.confidence.assign_confidence"


def run(ctx):
    prog = ctx.prog
    _stream_direction(ctx)
    # the merge that turns the sorted chunks into one descending stream is a
    # clause of this property too (shared with C14)
    from .c14 import _get_next_row, _merge_sort
    _get_next_row(ctx, prog.func("mokapot.utils.get_next_row"))
    _merge_sort(ctx, prog.func("mokapot.utils.merge_sort"))
    _first_seen_wins(ctx, prog.func(AC))
    _rollup_levels(ctx, prog.func("mokapot.brew_rollup.do_rollup"))
    _dedup_switch(ctx)
    _chunk_dedup_keeps_best(ctx)
    _cli_mapping(ctx)
    _target_decoy_routing(ctx)
    _retained_rows(ctx)
    chunk_size_agreement(ctx, "C03e-chunk-size-agreement")
    header_data_agreement(ctx, "C03e-header-matches-rows")
    _collections_independent(ctx, prog.func(AC))
    # the rollup competes exactly the rows of its inputs: files the tool
    # wrote itself in an earlier run are not inputs (shared with C09; last,
    # so that a form this clause cannot read does not hide what the other
    # clauses of this property found)
    from .c09 import _check_rollup_filter
    _check_rollup_filter(ctx, "C03b-rollup-inputs-only")


# ------------------------------------------------------------------ a
def _stream_direction(ctx):
    prog = ctx.prog
    f = prog.func("mokapot.confidence._save_sorted_metadata_chunks")
    # sink-driven: what is handed to the chunk writer
    T = Terms(DefUse(prog, f))
    writes = [n for n in ast.walk(f.node) if isinstance(n, ast.Call)
              and isinstance(n.func, ast.Attribute)
              and n.func.attr == "write" and len(n.args) == 1]
    ctx.require(len(writes) == 1, f"{f.qual}: chunk write not found")
    wt = T.of(writes[0].args[0])
    alts = list(wt[1]) if wt[0] == "phi" else [wt]
    ok_sorted = ok_score = bool(alts)
    why = ""
    for a_ in alts:
        t = a_
        # optional de-duplication on top of the sorted frame
        if t[0] == "mcall" and t[2] == "drop_duplicates":
            t = t[1]
        sv = None
        if t[0] in ("mut", "mcall") and t[2] == "sort_values":
            args, kws = t[3], dict(t[4])
            by = kws.get("by", args[0] if args else None)
            asc = kws.get("ascending", ("const", True))
            sv = (by, asc)
            base = t[1]
        if sv is None or sv[0] not in (
                ("const", "score"), ("list", (("const", "score"),))) or \
                sv[1] != ("const", False):
            ok_sorted = False
            why = (f"what is written is {show(a_, 120)}: not (a "
                   "de-duplication of) the chunk sorted by descending "
                   "'score'")
            continue
        att = [x for x in walk_term(base) if isinstance(x, tuple) and x
               and x[0] == "mcall" and x[2] == "assign"
               and dict(x[4]).get("score") == ("param", f.params[1])]
        if not att:
            ok_score = False
    ctx.check(ok_sorted, "C03a-chunk-sorted-descending", f,
              "each temporary chunk is sorted by score, best first", why,
              node=writes[0])
    ctx.check(ok_sorted, "C03a-sort-before-write", f,
              "scores attached, then sorted, then written - on every path",
              why or "a path writes the chunk without sorting it by score",
              node=writes[0])
    ctx.check(ok_score or not ok_sorted, "C03a-score-attached", f,
              "the chunk's own score slice is attached as column 'score' "
              "before sorting",
              f"the sorted frame is {show(wt, 160)}", node=writes[0])
    g = prog.func("mokapot.confidence.create_sorted_file_iterator")
    ms = [n for n in ast.walk(g.node) if isinstance(n, ast.Call)
          and callee_is(prog, g, n, "mokapot.utils.merge_sort")]
    ctx.require(len(ms) == 1, f"{g.qual}: merge_sort call not found")
    col = {k.arg: k.value for k in ms[0].keywords}.get("score_column") or (
        ms[0].args[1] if len(ms[0].args) > 1 else None)
    ctx.check(const_value(col) == "score", "C03a-merge-on-score", g,
              "chunks are merged on the same 'score' column",
              f"merge_sort(score_column={ast.unparse(col) if col else None})",
              node=ms[0])
    r = prog.func("mokapot.brew_rollup.do_rollup")
    mr = [n for n in ast.walk(r.node) if isinstance(n, ast.Call)
          and callee_is(prog, r, n, "MergedTabularDataReader")]
    ctx.require(len(mr) == 1, f"{r.qual}: merged reader not found")
    kws = {k.arg: k.value for k in mr[0].keywords}
    desc_default = const_value(prog.func(
        "mokapot.streaming.MergedTabularDataReader.__init__").defaults().get(
            "descending"))
    desc = const_value(kws["descending"]) if "descending" in kws else \
        desc_default
    ok = const_value(kws.get("priority_column")) == "score" and desc is True
    ctx.check(ok, "C03a-rollup-merge-descending", r,
              "rollup merges its inputs by descending 'score'",
              f"MergedTabularDataReader({ {k: ast.unparse(v) for k, v in kws.items()} })",
              node=mr[0])


# ------------------------------------------------------------------ b
def _first_seen_wins(ctx, f):
    """Event-driven: inside the per-row loop over the levels, when is the
    row kept, when is its key recorded, when does the level loop end - as a
    truth table over (level, deduplication, key already seen).  Aliases of
    the per-level set / batch, split or merged tests, early continue versus
    nesting do not matter."""
    from ..events import container_events
    from ..inline import _loop_level_jumps
    prog = ctx.prog
    du = DefUse(prog, f)
    T = Terms(du, phi_vars=True)
    cfg = CFG(f.node)
    evs = container_events(f.node, T, cfg)
    # anchor: the row of the outer loop appended to a per-level container
    # inside the inner loop
    keeps = []
    for e in evs:
        if e.kind != "append" or len(e.args) != 1 or e.recv[0] != "sub":
            continue
        l1 = cfg.enclosing(e.node, (ast.For,))
        l2 = cfg.enclosing(l1, (ast.For,)) if l1 is not None else None
        if l2 is None:
            continue
        if e.args[0] == data_elem(T.of(l2.iter)) and \
                e.recv[2] == data_elem(T.of(l1.iter)):
            keeps.append((e, l1, l2))
    ctx.require(len(keeps) == 1, f"{f.qual}: row loop over the sorted "
                f"stream not found ({len(keeps)} 'keep row' statements)")
    keep, ll, rl = keeps[0]
    lv_it = T.of(ll.iter)
    LEVEL = ("elem", lv_it)
    ROW = data_elem(T.of(rl.iter))
    mem = []
    for n in ast.walk(ll):
        if isinstance(n, ast.Compare) and len(n.ops) == 1 and isinstance(
                n.ops[0], (ast.In, ast.NotIn)):
            t = T.of(n)
            if root_name(t[3]) is not None and any(
                    e_.kind == "add" and root_name(e_.recv) == root_name(
                        t[3]) for e_ in evs) or (
                    t[3][0] == "sub" and t[3][2] == LEVEL):
                mem.append(t)
    ctx.require(mem, f"{f.qual}: no membership test on a seen-set in the "
                "level loop")
    SEEN, KEY = mem[0][3], mem[0][2]
    adds = [e for e in evs if e.kind == "add" and inside(e.node, ll)
            and root_name(e.recv) == root_name(SEEN)]
    ctx.check(len(adds) == 1 and adds[0].args == (KEY,)
              and no_uids(adds[0].recv) == no_uids(SEEN), "C03b-seen-add", f,
              "the key tested against the seen-set is the key added to it",
              f"tested: {show(KEY, 80)} in {show(SEEN, 60)}; added: "
              f"{[(show(e.args[0], 60), show(e.recv, 40)) for e in adds]}",
              node=keep.node)
    if len(adds) != 1:
        return
    add = adds[0]
    ctx.check(keep.recv[0] == "sub" and keep.recv[2] == LEVEL
              and keep.recv[1][0] == "var", "C03b-keep-per-level", f,
              "a kept row goes to the batch of the level being examined",
              f"the row is appended to {show(keep.recv, 80)}",
              node=keep.node)
    ctx.check(SEEN[0] == "sub" and SEEN[2] == LEVEL
              and SEEN[1][0] == "var",
              "C03b-seen-per-level", f, "each level has its own seen-set",
              f"seen-set expression is {show(SEEN, 100)}", node=add.node)
    ctx.check(all(no_uids(t[2]) == no_uids(KEY)
                  and no_uids(t[3]) == no_uids(SEEN) for t in mem),
              "C03b-seen-add", f,
              "every membership test in the level loop is on the same key "
              "and set", f"tests: {[show(t, 80) for t in mem]}",
              node=add.node)
    # key built from the level's hash columns of this row
    kt = KEY
    ok_key = False
    why = show(kt, 160)
    inner = kt
    hash_cols_t = None
    if inner[0] == "call" and inner[1] in ("builtins.str", "builtins.tuple",
                                           "builtins.hash") and inner[2]:
        inner = inner[2][0]
    if inner[0] == "comp":
        elt, gens = inner[2], inner[3]
        if len(gens) == 1:
            names, it, conds = gens[0]
            it_ok = (it[0] == "sub" and it[2] == LEVEL and not conds)
            elt_ok = (elt[0] == "mcall" and elt[2] == "get"
                      and elt[1] == ROW and len(elt[3]) == 1
                      and elt[3][0] == ("elem", it)) or (
                elt[0] == "sub" and elt[1] == ROW
                and elt[2] == ("elem", it))
            ok_key = it_ok and elt_ok
            if it_ok:
                hash_cols_t = it[1]
    ctx.check(ok_key, "C03b-key-from-level-columns", f,
              "the entity key is built from the level's hash columns of the "
              "current row", f"key is {why}", node=add.node)
    # ---- truth table
    breaks = [n for n in _loop_level_jumps(ll.body)
              if isinstance(n, ast.Break)]

    def atoms_for(level, dd, seen):
        def atoms(t):
            if t == LEVEL:
                return level
            if t == ("param", "deduplication"):
                return dd
            if t[0] == "cmp" and t[1] in ("in", "not in") and \
                    root_name(t[3]) == root_name(SEEN):
                return seen if t[1] == "in" else not seen
            raise KeyError(t)
        return atoms

    first = cfg.node_of(ll.body[0]).id
    hdr = cfg.node_of(ll).id
    n_keep = cfg.node_of(keep.stmt).id
    n_add = cfg.node_of(add.stmt).id
    n_brk = {cfg.node_of(b_).id for b_ in breaks}

    relevant = {n_keep, n_add} | n_brk

    def run(at):
        """statements of one pass through the level loop under ``at``; a
        test that cannot be evaluated is followed both ways when nothing
        that is judged here comes after it, and is an analysis error
        otherwise"""
        def decide(test):
            if not inside(test, ll):
                return None
            try:
                return bool(ev_term(simp(T.of(test)), at))
            except (EvUnknown, KeyError):
                tn = cfg.node_of(cfg.stmt_of(test)).id
                if relevant & cfg.reachable_normally(tn, avoid={hdr}):
                    raise
                return None
        return cfg.visited_under(first, decide, stop={hdr})

    table, bad_first, bad_loser, bad_skip, bad_guard = [], [], [], [], []
    try:
        for level in ("psms", "peptides", "proteins", "precursors"):
            for dd in (True, False):
                for seen in (True, False):
                    vis = run(atoms_for(level, dd, seen))
                    kept, added = n_keep in vis, n_add in vis
                    broke = bool(n_brk & vis)
                    runs = level != "psms" or dd
                    row = {"level": level, "deduplication": dd,
                           "seen": seen, "kept": kept, "recorded": added,
                           "ends level loop": broke}
                    table.append(row)
                    if not runs:
                        if not kept or added or broke:
                            bad_guard.append(row)
                        continue
                    if kept != (not seen) or added != (not seen):
                        bad_first.append(row)
                    if level == "psms" and broke != seen:
                        bad_loser.append(row)
                    if level != "psms" and broke:
                        bad_skip.append(row)
    except (EvUnknown, KeyError) as e:
        raise AnalysisError(f"{f.qual}: a condition of the level loop is "
                            f"outside the evaluated fragment: {str(e)[:90]}")
    ctx.check(not bad_first, "C03b-first-seen-wins", f,
              "a row whose key was already seen is never kept; a kept row's "
              "key is recorded (16 valuations)", f"deviates: {bad_first[:3]}",
              node=keep.node)
    ctx.check(not bad_loser, "C03b-loser-leaves-all-levels", f,
              "a PSM that lost its spectrum is not offered to any higher "
              "level (the level loop ends at the 'psms' level)",
              "the losing PSM of a spectrum can still represent a peptide "
              f"(or a winner is cut off): {bad_loser[:3]}", node=add.node)
    ctx.check(not bad_skip, "C03b-seen-entity-skipped", f,
              "a seen higher-level entity is skipped without ending the "
              "level loop", f"deviates: {bad_skip[:3]}", node=add.node)
    ctx.check(not bad_guard, "C03c-dedup-guard", f,
              "spectrum-level competition is applied iff deduplication is "
              "on; higher levels always",
              "with deduplication off the 'psms' level must keep every row "
              f"and record nothing: {bad_guard[:3]}", node=add.node)
    # 'psms' is the first level and hashes the spectrum columns
    first_ok = False
    if lv_it[0] == "var":
        ds = T.var_defs[lv_it]
    else:
        ds = list(du.defs_of(ll.iter)) if isinstance(ll.iter, ast.Name) \
            else []
    base = [d for d in ds if d.kind == "assign"]
    muts = [d for d in ds if d.kind == "mut"]
    if base:
        bt = Terms(du).of_def(base[0])
        first_ok = bt[0] == "list" and len(bt[1]) == 1 and bt[1][0] == (
            "const", "psms") and all(
            (d.extra or {}).get("method") == "append" for d in muts)
    ctx.check(first_ok, "C03b-psms-first", f,
              "'psms' is the first level examined for every row",
              f"levels list is built as {[d.kind for d in ds]}", node=ll)
    if ok_key and hash_cols_t is not None:
        ok_h = False
        hroot = root_name(hash_cols_t)
        Tn = Terms(du)
        for d in du.defs:
            if d.name == hroot and d.kind == "assign" and \
                    d.value is not None:
                dt = Tn.of_def(d)
                if dt[0] == "dict":
                    for k_, v_ in zip(dt[1], dt[2]):
                        if k_ == ("const", "psms") and v_[0] == "attr" and \
                                v_[2] == "spectrum_columns":
                            ok_h = True
        for e in evs:
            if e.kind == "store" and root_name(e.recv) == hroot and \
                    e.key == ("const", "psms"):
                ok_h = e.value[0] == "attr" and \
                    e.value[2] == "spectrum_columns"
        ctx.check(ok_h, "C03b-psms-key-is-spectrum", f,
                  "the 'psms' level is keyed by the spectrum columns",
                  f"{hroot}['psms'] is not the dataset's spectrum_columns",
                  node=add.node)


def _path_order(ctx, g):
    """The list of result paths of a level is [targets path] plus the decoys
    path iff decoys are requested - read off a structured trace of the loop
    that fills it, for every valuation of the flags it tests (so repeated
    statements and a small loop over the two kinds are the same thing)."""
    import itertools
    from ..events import container_events
    from ..trace import Undecided, trace
    prog = ctx.prog
    du = DefUse(prog, g)
    T = Terms(du)
    cfg = CFG(g.node)
    from ..proto import Calls
    lc = Calls(prog, g, du=du, T=T, cfg=cfg).calls(
        "mokapot.confidence.LinearConfidence")
    ctx.require(len(lc) == 1, f"{g.qual}: LinearConfidence(...) not found")
    b = bound_args(prog, lc[0][0]) or {}
    op = b.get("out_paths")
    ctx.require(op is not None and op[0] == "comp" and op[2][0] == "sub",
                f"{g.qual}: out_paths handed to LinearConfidence not "
                "recognised")
    # events are taken with loop-carried names kept as names
    Tv = Terms(du, phi_vars=True)
    evs = container_events(g.node, Tv, cfg)
    opv = [t for t, n in Calls(prog, g, du=du, T=Tv, cfg=cfg).calls(
        "mokapot.confidence.LinearConfidence")]
    bv = bound_args(prog, opv[0]) or {}
    OUT = root_name(bv["out_paths"][2]) if bv.get("out_paths") and \
        bv["out_paths"][0] == "comp" else None
    ctx.require(OUT is not None, f"{g.qual}: container of the result paths "
                "not found")
    mine = [e for e in evs if root_name(e.recv) == OUT
            and e.kind in ("store", "append", "extend", "insert", "aug")]
    ctx.require(mine, f"{g.qual}: no updates of {OUT}")
    def filling_loop(node):
        """the outermost loop around ``node`` that iterates over levels
        (its loop variable is the key the paths are filed under)"""
        chain = cfg.enclosing_all(node, (ast.For,))
        for lp_ in reversed(chain):
            k = ("elem", Tv.of(lp_.iter))
            if any(e_.kind == "store" and e_.key == k for e_ in mine):
                return lp_
        return None

    loops = {id(filling_loop(e.node)): filling_loop(e.node) for e in mine}
    ctx.require(len(loops) == 1 and None not in loops.values(),
                f"{g.qual}: the result paths are not filled in one loop")
    lp = next(iter(loops.values()))
    LEVEL = ("elem", T.of(lp.iter))
    # a local list that is filled first and then filed under the level
    # (paths = []; paths.append(p) ...; OUT[level] = paths) is followed too
    feeders = set()
    for e in mine:
        if e.kind == "store" and e.value is not None and \
                e.value[0] == "var" and inside(e.stmt, lp):
            feeders.add(e.value[1])
    feed_evs = [e for e in evs if root_name(e.recv) in feeders
                and e.kind in ("append", "extend", "insert", "aug", "store")
                and inside(e.stmt, lp)]
    by_stmt = {}
    for e in mine + feed_evs:
        by_stmt.setdefault(id(e.stmt), []).append(e)
    # flags tested inside the loop
    flags = set()
    flag_params = {p_ for p_ in g.params
                   if isinstance(const_value(g.defaults().get(p_)), bool)}
    for n in ast.walk(lp):
        tt = None
        if isinstance(n, (ast.If, ast.IfExp)):
            tt = T.of(n.test)
        elif isinstance(n, ast.For) and n is not lp:
            # the iterable of a nested loop may have been chosen by a flag
            # outside (kinds = ("targets", "decoys") if decoys else ...)
            tt = T.of(n.iter)
        if tt is not None:
            for x in walk_term(tt):
                if isinstance(x, tuple) and len(x) == 2 and \
                        x[0] == "param" and (
                            x[1] in flag_params
                            or not isinstance(n, ast.For)):
                    flags.add(x[1])
    flags = sorted(flags)
    ctx.require(len(flags) <= 5, f"{g.qual}: too many flags in the loop")

    def kind_of(t):
        ss = [x[1] for x in walk_term(t) if isinstance(x, tuple)
              and len(x) == 2 and x[0] == "const" and isinstance(x[1], str)]
        k = set()
        if any("targets" in x for x in ss):
            k.add("targets")
        if any("decoys" in x for x in ss):
            k.add("decoys")
        return next(iter(k)) if len(k) == 1 else "?"

    bad = []
    try:
        for vals in itertools.product((True, False), repeat=len(flags)):
            for level in ("psms", "proteins"):
                val = dict(zip(flags, vals))

                def atoms(t, val=val, level=level):
                    if t == LEVEL:
                        return level
                    if t[0] == "param" and t[1] in val:
                        return val[t[1]]
                    if t[0] == "phi":
                        # a flag that is re-bound later in the enclosing
                        # loop: either value may arrive here
                        ps = [x for x in t[1] if x[0] == "param"
                              and x[1] in val]
                        if ps:
                            return val[ps[0][1]]
                    raise KeyError(t)
                seq = []
                feed = {}
                for st, env in trace(lp.body, T, atoms):
                    if isinstance(st, ast.Assign) and len(
                            st.targets) == 1 and isinstance(
                                st.targets[0], ast.Name) and \
                            st.targets[0].id in feeders:
                        feed[st.targets[0].id] = [] if T.of(st.value) in (
                            ("list", ()),) else ["?"]
                    for e in by_stmt.get(id(st), ()):
                        if root_name(e.recv) in feeders:
                            nm_ = root_name(e.recv)
                            sub_ = (lambda t, env=env: map_term(
                                t, lambda x: ("const", env[x]) if x in env
                                else x))
                            if e.kind == "append" and nm_ in feed:
                                feed[nm_].append(kind_of(sub_(T.of(
                                    e.node.args[0]))))
                            else:
                                feed[nm_] = ["?"]
                            continue
                        if e.kind == "store" and e.value is not None and \
                                e.value[0] == "var" and \
                                e.value[1] in feeders:
                            seq = list(feed.get(e.value[1], ["?"]))
                            continue
                        sub = (lambda t, env=env: map_term(
                            t, lambda x: ("const", env[x]) if x in env
                            else x))
                        # terms of the traced T (loop variables as elem())
                        vt = sub(T.of(e.stmt.value)) if isinstance(
                            e.stmt, ast.Assign) else None
                        if e.kind == "store" and vt is not None:
                            if vt[0] == "list":
                                seq = [kind_of(x) for x in vt[1]]
                            else:
                                seq = ["?"]
                        elif e.kind == "append":
                            seq.append(kind_of(sub(T.of(e.node.args[0]))))
                        else:
                            seq.append("?")
                want = ["targets"] + (["decoys"] if val.get("decoys")
                                      else [])
                if seq != want:
                    bad.append((val, level, seq))
    except Undecided as e:
        raise AnalysisError(f"{g.qual}: the loop that names the result "
                            f"files cannot be traced: {e}")
    ctx.check(not bad and "decoys" in flags, "C03d-path-order", g,
              "the result paths of a level are [targets path] (+ decoys "
              "path iff decoys)",
              f"(flags, level, paths) = {bad[:3]}" if bad else
              "the decoys flag is not tested", node=lp)


def _membership(term, outcome):
    """(key, container, is-member) of an in / not-in condition"""
    if term[0] == "cmp" and term[1] in ("in", "not in"):
        return term[2], term[3], (term[1] == "in") == outcome
    return None


def _rollup_levels(ctx, f):
    cfg = CFG(f.node)
    du = DefUse(ctx.prog, f)
    T = Terms(du)

    def row_source(n):
        t = T.of(n.iter)
        if t[0] == "call" and t[1] == "builtins.enumerate" and t[2]:
            t = t[2][0]
        return t[0] == "mcall" and t[2] == "get_row_iterator"

    loops = [n for n in ast.walk(f.node) if isinstance(n, ast.For)
             and row_source(n)]
    if not loops:
        # the streaming loop may live in a helper of this function
        prog = ctx.prog
        for q in sorted(prog.reachable([f.qual])):
            g = prog.funcs.get(q)
            if g is None or g is f or isinstance(g.node, ast.Lambda) or \
                    g.module is not f.module:
                continue
            gT = Terms(DefUse(prog, g))
            for n in ast.walk(g.node):
                if isinstance(n, ast.For):
                    t = gT.of(n.iter)
                    if t[0] == "call" and t[1] == "builtins.enumerate" \
                            and t[2]:
                        t = t[2][0]
                    if t[0] == "mcall" and t[2] == "get_row_iterator":
                        return _rollup_levels(ctx, g)
    ctx.require(len(loops) == 1, f"{f.qual}: row loop not found")
    rl = loops[0]
    apps = [n for n in ast.walk(rl) if isinstance(n, ast.Call)
            and isinstance(n.func, ast.Attribute)
            and n.func.attr == "append_data"]
    ctx.require(apps, f"{f.qual}: no row is written in the row loop")
    ll = cfg.enclosing(apps[0], (ast.For,))
    ctx.require(ll is not None and ll is not rl and inside(ll, rl),
                f"{f.qual}: level loop not found")
    brk = [n for n in ast.walk(ll) if isinstance(n, (ast.Break, ast.Return))]
    ctx.check(not brk, "C03b-rollup-levels-independent", f,
              "every rollup level is decided on its own seen-set (no break "
              "out of the level loop)",
              "the level loop of the rollup tool stops at the first seen "
              "entity: levels that are not nested in the previous one "
              "(peptide groups) miss their best row", node=ll)
    adds = [n for n in ast.walk(ll) if isinstance(n, ast.Call)
            and isinstance(n.func, ast.Attribute) and n.func.attr == "add"
            and len(n.args) == 1]
    in_ll = [a for a in apps if inside(a, ll)]
    ok = len(adds) == 1 and len(in_ll) == 1 and len(apps) == 1
    why = f"adds={len(adds)} appends={len(apps)} in the level loop"
    new_only = False
    if ok:
        def lconds(n):
            out = []
            for t, o in cfg.necessary_conditions(n):
                if inside(t, ll):
                    tt = T.of(t)
                    while tt[0] == "un" and tt[1] == "not":
                        tt, o = tt[2], not o
                    out.append(_membership(tt, o) or (tt, o))
            return out
        ca, cw = lconds(adds[0]), lconds(apps[0])
        add_t = T.of(adds[0].func.value)
        addk_t = T.of(adds[0].args[0])
        w_t = T.of(apps[0].func.value)
        lv = ("elem", T.of(ll.iter))
        want = (addk_t, add_t, False)       # key not in seen-set
        new_only = cw == [want]
        # the level token: seen[level] with level from the loop, or the
        # value of seen.items() whose key is the level
        if add_t[0] == "sub":
            tok, per_level = add_t[2], add_t[2] == lv
        elif add_t[0] == "value":
            tok, per_level = ("key", add_t[1]), True
        else:
            tok, per_level = None, False
        ok = (ca == [want] and new_only and per_level
              and w_t[0] == "sub" and w_t[2] == tok
              and any(x == tok for x in walk_term(addk_t)))
        why = (f"records {show(addk_t, 60)} in {show(add_t, 60)} under "
               f"{[show(c, 80) for c in ca]}; writes to {show(w_t, 60)} "
               f"under {[show(c, 80) for c in cw]}")
    ctx.check(ok, "C03b-rollup-first-seen-wins", f,
              "rollup keeps a row for a level iff its entity id is new for "
              "that level, records it, and writes it to that level's file",
              why, node=apps[0])
    ctx.check(new_only, "C03b-rollup-only-new", f,
              "rows are only written on the new-entity branch",
              "append_data outside the new-entity branch", node=ll)


def _list_elements(t):
    """elements of a list built with displays, +, append and extend, in
    order (a part that is not a display is a spliced ('star', part))"""
    if t[0] in ("list", "tuple"):
        return list(t[1])
    if t[0] == "bin" and t[1] == "+":
        a, b = _list_elements(t[2]), _list_elements(t[3])
        return (a if a is not None else [("star", t[2])]) + (
            b if b is not None else [("star", t[3])])
    if t[0] == "mut" and t[2] == "append" and len(t[3]) == 1:
        a = _list_elements(t[1])
        return None if a is None else a + [t[3][0]]
    if t[0] == "mut" and t[2] == "extend" and len(t[3]) == 1:
        a, b = _list_elements(t[1]), _list_elements(t[3][0])
        return None if a is None else a + (
            b if b is not None else [("star", t[3][0])])
    return None


# ------------------------------------------------------------------ c
def header_data_agreement(ctx, rule_id):
    """The result files get their header from one list (assign_confidence)
    and their rows, by position, from another (Confidence.write_to_disk):
    the two column sequences must agree role by role."""
    prog = ctx.prog
    g = prog.func(AC)
    T = Terms(DefUse(prog, g))

    from ..tutil import module_constants

    def role(x):
        x = module_constants(prog, x)
        if x[0] == "star":
            return ("splice", tkey(no_uids(x[1])))
        if x[0] == "const" and isinstance(x[1], str):
            return ("name", x[1].lower().replace("-", "").replace("_", ""))
        if x[0] == "attr":
            return ("attr", x[2])
        return ("other", tkey(no_uids(x)))

    def lists_in(t):
        if t[0] == "phi":
            return [y for x in t[1] for y in lists_in(x)]
        if t[0] == "ifexp":
            return lists_in(t[2]) + lists_in(t[3])
        if t[0] == "list":
            return [t]
        d = as_display(t)
        if d is not None and any(x[0] != "star" for x in d):
            return [("list", tuple(d))]
        return []

    def as_display(t):
        """elements of a list built with +, append and extend, in order
        (a part that is not a display is a spliced ('star', part))"""
        if t[0] == "list":
            return list(t[1])
        if t[0] == "bin" and t[1] == "+":
            a, b = as_display(t[2]), as_display(t[3])
            return (a if a is not None else [("star", t[2])]) + (
                b if b is not None else [("star", t[3])])
        if t[0] == "mut" and t[2] == "append" and len(t[3]) == 1:
            a = as_display(t[1])
            return None if a is None else a + [t[3][0]]
        if t[0] == "mut" and t[2] == "extend" and len(t[3]) == 1:
            a, b = as_display(t[1]), as_display(t[3][0])
            return None if a is None else a + (
                b if b is not None else [("star", t[3][0])])
        return None

    def parts(t):
        """concat_parts with *x items of displays turned into splices"""
        return [("splice", x[1]) if k == "item" and x[0] == "star"
                else (k, x) for k, x in concat_parts(t)]

    headers, metas = [], []
    for n in ast.walk(g.node):
        if isinstance(n, ast.Call) and ast.unparse(n.func).endswith(
                "TabularDataWriter.from_suffix"):
            cols = dict((k.arg, k.value) for k in n.keywords).get(
                "columns", n.args[1] if len(n.args) > 1 else None)
            if cols is None:
                continue
            for lst in lists_in(T.of(cols)):
                names = [x[1] for x in lst[1] if x[0] == "const"]
                if "PSMId" in names and any(
                        x[0] == "attr" and x[2] == "target_column"
                        for x in lst[1]):
                    metas.append(lst)
                elif "PSMId" in names:
                    headers.append(lst)
    headers = list({tkey(no_uids(h)): h for h in headers}.values())
    metas = list({tkey(no_uids(m)): m for m in metas}.values())
    ctx.require(len(headers) == 1 and len(metas) == 1,
                f"{g.qual}: header list / level-file column list not "
                f"found ({len(headers)} / {len(metas)})")
    H = [role(x) for x in headers[0][1]]
    M = [role(x) for x in metas[0][1]]
    # how write_to_disk derives the data order from the level-file columns
    w = prog.func("mokapot.confidence.Confidence.write_to_disk")
    Tw = Terms(DefUse(prog, w))
    wc = [n for n in walk_own(w.node) if isinstance(n, ast.Call)
          and prog.resolve_call(w, w.module, n)[1] == [
              "mokapot.confidence_writer.write_confidences"]]
    ctx.require(len(wc) == 1, f"{w.qual}: write_confidences call not found")
    wcf = prog.func("mokapot.confidence_writer.write_confidences")
    from ..tutil import norm_logic
    out = norm_logic(Tw.of(prog.bind(wcf, wc[0])["out_columns"]))
    alts = out[1] if out[0] == "phi" else (out,)
    SELF = ("param", "self")
    P = ("attr", SELF, "_protein_column")
    base = moved = None
    for a in alts:
        if a[0] == "mut" and a[2] == "append" and a[3] == (P,) and \
                a[1][0] == "mut" and a[1][2] == "remove" and \
                a[1][3] == (P,):
            moved = a[1][1]
        else:
            base = a
    ok_shape = base is not None and (moved is None or moved == base)
    tail = []
    if ok_shape:
        ps = parts(base)
        ok_shape = len(ps) >= 1 and ps[0][0] == "splice" and \
            ps[0][1][0] == "comp" and len(ps[0][1][3]) == 1 and all(
                k == "item" for k, _x in ps[1:])
        if ok_shape:
            comp = ps[0][1]
            names, it, conds = comp[3][0]
            ok_shape = (comp[2] == ("elem", it) and conds == (
                ("cmp", "!=", ("elem", it),
                 ("attr", SELF, "_target_column")),))
            tail = [x for _k, x in ps[1:]]
    ctx.require(ok_shape, f"{w.qual}: derivation of the output column order "
                f"not recognised: {show(out, 200)}")
    D = [r for r in M if r != ("attr", "target_column")] + [
        role(x) for x in tail]
    prot = [r for r in D if r[0] == "name" and "protein" in r[1]]
    if moved is not None and len(prot) == 1:
        D = [r for r in D if r != prot[0]] + prot
    ctx.check(D == H, rule_id, g,
              "header columns and data columns of the result files agree "
              "position by position",
              f"header order {[r[1][:20] for r in H]} but rows are written "
              f"as {[r[1][:20] for r in D]}: values appear under the wrong "
              "column names whenever extra level columns are present",
              node=g.node)


def _chunk_dedup_keeps_best(ctx):
    """The per-chunk removal of duplicate spectra keeps the FIRST row of
    each spectrum: that is the best one only if the chunk has been sorted by
    descending score before."""
    prog = ctx.prog
    reach = prog.reachable([AC])
    n = 0
    for q in sorted(reach):
        f = prog.funcs.get(q)
        if f is None or isinstance(f.node, ast.Lambda):
            continue
        T = None
        for call in ast.walk(f.node):
            if not (isinstance(call, ast.Call) and isinstance(
                    call.func, ast.Attribute)
                    and call.func.attr == "drop_duplicates"):
                continue
            subset = call.args[0] if call.args else {
                k.arg: k.value for k in call.keywords}.get("subset")
            if subset is None or "spectrum_columns" not in ast.unparse(
                    subset):
                continue
            n += 1
            T = T or Terms(DefUse(prog, f))
            recv = T.of(call.func.value)
            kws = {k.arg: T.of(k.value) for k in call.keywords if k.arg}
            keep = kws.get("keep", ("const", "first"))
            sorted_desc = False
            t = recv
            while True:
                if t[0] == "phi":
                    break
                if t[0] in ("mut", "mcall") and t[2] == "sort_values":
                    a, k = (t[3], dict(t[4]))
                    by = k.get("by", a[0] if a else None)
                    asc = k.get("ascending", a[2] if len(a) > 2 else
                                ("const", True))
                    if by in (("const", "score"),
                              ("list", (("const", "score"),))) and \
                            asc == ("const", False):
                        sorted_desc = True
                    break
                if t[0] in ("mut", "store", "mcall") and len(t) > 1 and \
                        isinstance(t[1], tuple) and t[2] not in (
                            "sample", "sort_index", "iloc"):
                    if t[0] == "mcall" and t[2] not in (
                            "reset_index", "copy", "assign", "astype"):
                        break
                    t = t[1]
                    continue
                break
            ctx.check(sorted_desc and keep == ("const", "first"),
                      "C03b-chunk-dedup-keeps-best", f,
                      "duplicate spectra are dropped from a chunk that was "
                      "sorted by descending score (so the first = best row "
                      "of each spectrum survives)",
                      f"drop_duplicates(keep={show(keep, 20)}) is applied "
                      f"to {show(recv, 160)}: an arbitrary (not the best) "
                      "PSM of a spectrum survives, and which one depends on "
                      "how the rows fall into chunks", node=call)
    ctx.floor("C03b-chunk-dedup-sites", n, 1)


def _dedup_switch(ctx):
    prog = ctx.prog
    flow = Flow(prog)
    reach = prog.reachable([AC])
    n = 0
    for q in sorted(reach):
        f = prog.funcs.get(q)
        if f is None or isinstance(f.node, ast.Lambda):
            continue
        for call in ast.walk(f.node):
            if not (isinstance(call, ast.Call) and isinstance(
                    call.func, ast.Attribute)
                    and call.func.attr == "drop_duplicates"):
                continue
            subset = call.args[0] if call.args else {
                k.arg: k.value for k in call.keywords}.get("subset")
            if subset is None or "spectrum_columns" not in ast.unparse(
                    subset):
                continue
            n += 1
            cfg = CFG(f.node)
            gs = cfg.guards(call)
            origins = set()
            for test, pol in gs:
                for kind, name in flow.roots(f, test):
                    if kind == "param":
                        origins |= flow.param_origins(f, name, {AC})
            if any(len(o_) == 3 and "*args" in str(o_[2])
                   for o_ in origins):
                raise AnalysisError(
                    f"{f.qual}: the flag that guards the per-chunk removal "
                    "of duplicates arrives through *args / **kwargs "
                    f"({sorted(origins)}); its origin cannot be read")
            ok = bool(gs) and origins == {("param", AC, "deduplication")} \
                and all(pol for _t, pol in gs)
            ctx.check(ok, "C03c-dedup-switch", f,
                      f"{ast.unparse(call)[:60]} is controlled only by "
                      "assign_confidence(deduplication=...)",
                      "per-chunk removal of duplicate spectra is controlled "
                      f"by {sorted(origins) or 'nothing'}: with "
                      "deduplication off, duplicates would still be dropped "
                      "when they share a chunk (and the result depends on "
                      "the chunk size)", node=call)
    ctx.floor("C03c-dedup-sites", n, 1)


CLI_TABLE = {
    # formal of assign_confidence : option (('not', option) when negated)
    "decoys": "keep_decoys",
    "deduplication": ("not", "skip_deduplication"),
    "do_rollup": ("not", "skip_rollup"),
    "peps_error": "peps_error",
    "peps_algorithm": "peps_algorithm",
    "qvalue_algorithm": "qvalue_algorithm",
    "eval_fdr": "test_fdr",
    "sqlite_path": "sqlite_db_path",
    "max_workers": "max_workers",
    "dest_dir": "dest_dir",
}


def _cli_mapping(ctx):
    prog = ctx.prog
    m = prog.func("mokapot.mokapot.main")
    from .common import cli_routing
    cli_routing(ctx, "C03c-cli-option-routing", AC, CLI_TABLE,
                "the confidence assignment (an option that is parsed but not "
                "passed on, or passed with the wrong polarity, silently "
                "changes what is kept)")
    calls = [n for n in ast.walk(m.node) if isinstance(n, ast.Call)
             and prog.resolve_call(m, m.module, n)[1] == [AC]]
    ctx.require(len(calls) == 1, f"{m.qual}: assign_confidence call not "
                "found")
    b = prog.bind(prog.func(AC), calls[0])
    # scores / descs come from brew, in the order brew returns them
    du = DefUse(prog, m)
    T = Terms(du)
    for formal, idx in (("psms", 0), ("scores", 2), ("descs", 3)):
        t = T.of(b[formal]) if formal in b else None
        ok = t is not None and t[0] == "item" and t[2] == idx and \
            t[1][0] == "call" and t[1][1] in ("mokapot.brew.brew",
                                              "mokapot.brew")
        ctx.check(ok, "C03c-brew-results-routing", m,
                  f"assign_confidence({formal}=...) is element {idx} of "
                  "brew's result",
                  f"{formal} = {show(t, 80) if t else None}", node=calls[0])
    # options exist with the expected action
    p = prog.func("mokapot.config._parser")
    opts = {}
    pT = Terms(DefUse(prog, p))
    for n in ast.walk(p.node):
        if isinstance(n, ast.Call) and isinstance(n.func, ast.Attribute) \
                and n.func.attr == "add_argument":
            t_ = pT.of(n)
            if t_[0] != "mcall":
                continue
            names = [a[1] for a in t_[3] if a[0] == "const"
                     and isinstance(a[1], str)]
            # keywords as the call receives them (a ** of a dictionary
            # display is spread out by the term construction)
            kws = dict(t_[4])
            for nm in names:
                if nm.startswith("--"):
                    opts[nm[2:]] = kws
    for o in ("keep_decoys", "skip_deduplication", "skip_rollup",
              "peps_error"):
        kw = opts.get(o)
        ok = kw is not None and kw.get("action") == (
            "const", "store_true") and kw.get(
            "default", ("const", False)) == ("const", False)
        ctx.check(ok, "C03c-cli-flag-definition", p,
                  f"--{o} is an off-by-default switch",
                  f"--{o}: {({k: show(v, 40) for k, v in kw.items() if k != 'help'}) if kw else 'missing'}",
                  node=p.node)


# ------------------------------------------------------------------ d
def _target_decoy_routing(ctx):
    prog = ctx.prog
    f = prog.func("mokapot.confidence_writer.write_confidences")
    du = DefUse(prog, f)
    T = Terms(du, phi_vars=True)
    cfg = CFG(f.node)
    # the loop that hands blocks to writers: for w, d in zip(writers, BLOCKS)
    wz0 = [n for n in ast.walk(f.node) if isinstance(n, ast.For)
           and isinstance(n.iter, ast.Call)
           and ast.unparse(n.iter.func) == "zip" and len(n.iter.args) == 2
           and any(isinstance(x, ast.Call) and isinstance(
               x.func, ast.Attribute) and x.func.attr == "append_data"
               for x in ast.walk(n))]
    ctx.require(len(wz0) == 1, f"{f.qual}: loop pairing writers with output "
                "blocks not found")
    chunk_loop = cfg.enclosing(wz0[0], (ast.For,))
    ctx.require(chunk_loop is not None, f"{f.qual}: chunk loop not found")
    blocks_by_val = {}
    for v in path_variants(f.node, within=chunk_loop):
        vdu = DefUse(prog, f, fnode=v.fnode)
        vT = Terms(vdu, phi_vars=True)
        # which (sqlite, decoys) valuations take this path?
        names = {}
        for t, _o in v.conds:
            for nm in ast.walk(t):
                if isinstance(nm, ast.Name):
                    from ..tutil import module_constants as _mc
                    tt = _mc(prog, vT.of(nm))
                    if tt == ("param", "decoys"):
                        names[nm.id] = "decoys"
                    elif any(x == ("const", ".db") for x in walk_term(tt)):
                        names[nm.id] = "sqlite"
                    else:
                        raise AnalysisError(
                            f"{f.qual}: output blocks depend on "
                            f"'{nm.id}', neither the decoys flag nor the "
                            "sqlite test; rule C03d needs re-reading")
        vz = [n for n in ast.walk(v.fnode) if isinstance(n, ast.For)
              and isinstance(n.iter, ast.Call)
              and ast.unparse(n.iter.func) == "zip" and len(
                  n.iter.args) == 2
              and any(isinstance(x, ast.Call) and isinstance(
                  x.func, ast.Attribute) and x.func.attr == "append_data"
                  for x in ast.walk(n))]
        ctx.require(len(vz) == 1, f"{f.qual}: writer loop lost in a variant")
        bt = vT.of(vz[0].iter.args[1])
        elems = seq_elems(bt)
        by_case = None
        if elems is None and bt[0] == "call" and bt[1] in prog.funcs:
            # the blocks are built by a helper: one reading per path of it
            callee = prog.funcs[bt[1]]
            b_ = bound_args(prog, bt) or {}
            by_case = []
            for case in return_cases(prog, callee, phi_vars=False):
                ce = seq_elems(subst_params(case.term, b_))
                if ce is None:
                    by_case = None
                    break
                by_case.append(([(subst_params(c_, b_), o_)
                                 for c_, o_ in case.conds], ce))
        if elems is None and bt[0] == "comp" and len(bt[3]) == 1 and \
                bt[3][0][2] and seq_elems(bt[3][0][1]) is not None:
            ctx.check(False, "C03d-mask-order", f,
                      "output block i is paired with writer i by position",
                      "the list of output blocks is filtered ("
                      + show(bt[3][0][2][0], 60) + ") before it is zipped "
                      "with the writers: when a block is dropped the "
                      "remaining ones move up and are written to the wrong "
                      "file (decoy rows into the targets file)",
                      node=vz[0])
            return
        ctx.require(elems is not None or by_case is not None,
                    f"{f.qual}: construction of the "
                    "output blocks not recognised: " + show(bt, 200))
        for sq in (False, True):
            for dc in (False, True):
                env = {n: (sq if k == "sqlite" else dc)
                       for n, k in names.items()}
                try:
                    takes = all(bool(eval_cond(t, env)) == o
                                for t, o in v.conds)
                except CondUnknown as e:
                    raise AnalysisError(f"{f.qual}: cannot evaluate {e}")
                if not takes:
                    continue
                got = elems
                if by_case is not None:
                    def atoms(t, sq=sq, dc=dc):
                        if t == ("param", "decoys"):
                            return dc
                        if t[0] == "cmp" and any(
                                x == ("const", ".db")
                                for x in walk_term(t)):
                            return sq
                        raise KeyError(t)
                    try:
                        hits = [ce for cc, ce in by_case if all(
                            bool(ev_term(simp(c_), atoms)) == o_
                            for c_, o_ in cc)]
                    except (EvUnknown, KeyError) as e:
                        raise AnalysisError(
                            f"{f.qual}: cannot evaluate {str(e)[:80]}")
                    ctx.require(len(hits) == 1, f"{f.qual}: helper paths "
                                "for one valuation: " + str(len(hits)))
                    got = hits[0]
                ctx.require((sq, dc) not in blocks_by_val,
                            f"{f.qual}: two paths for one valuation")
                blocks_by_val[(sq, dc)] = got
    ctx.require(len(blocks_by_val) == 4, f"{f.qual}: output blocks not "
                "determined for every (sqlite, decoys) valuation")

    def rows_under(e):
        """mask term of  chunk.loc[mask, cols]  (else None)"""
        if e[0] == "sub" and e[1][0] == "attr" and e[1][2] == "loc" and \
                e[2][0] == "tuple" and len(e[2][1]) == 2:
            return e[2][1][0]
        return None

    one = blocks_by_val[(False, False)]
    two = blocks_by_val[(False, True)]
    tmask = rows_under(one[0]) if len(one) == 1 else None
    ok = (tmask is not None and len(two) == 2 and two[0] == one[0]
          and rows_under(two[1]) == ("un", "~", tmask)
          and two[1][1] == one[0][1] and two[1][2][1][1] == one[0][2][1][1])
    ctx.check(ok, "C03d-mask-order", f,
              "first output block = rows under the target mask, second "
              "(only when decoys are requested) = rows under its negation",
              "blocks without decoys: " + str([show(e, 120) for e in one])
              + "; with decoys: " + str([show(e, 120) for e in two]),
              node=wz0[0])
    # target mask is the chunk of the target iterator
    if tmask is not None:
        ok_t = tmask[0] == "zipelem" and tmask[2][tmask[1]] == (
            "param", "target_iterator")
        ctx.check(ok_t, "C03d-mask-is-target-flag", f,
                  "the mask is the target-flag chunk of the same zip step",
                  f"mask is {show(tmask, 120)}", node=f.node)
    # writers are created from out_paths in order and zipped with data_out
    # writers are created from out_paths in order and zipped with the blocks
    Tn = Terms(DefUse(prog, f))
    wt = Tn.of(wz0[0].iter.args[0])
    parts = seq_parts(wt)
    ok_w = False
    if parts and len(parts) == 1 and parts[0][0] == "each":
        _k, elt, src = parts[0]
        ok_w = root_name(src) == "out_paths" and any(
            x == ("elem", src) for x in walk_term(elt))
    ctx.check(ok_w, "C03d-writers-in-path-order", f,
              "writer i is created for out_paths[i] and receives block i",
              f"writers are {show(wt, 160)}", node=wz0[0])
    from ..events import container_events
    pev = [e for e in container_events(f.node, T, cfg)
           if root_name(e.recv) == "out_paths"
           and e.kind in ("pop", "del", "remove", "clear", "store", "aug",
                          "insert", "append", "extend")]
    pops = [cfg.stmt_of(e.node) for e in pev]
    ok_p = len(pev) == 1 and (
        (pev[0].kind == "pop" and pev[0].args == (("const", 1),))
        or (pev[0].kind == "del" and pev[0].key == ("const", 1))) and \
        "not decoys" in cfg.conditions(pev[0].stmt)
    ctx.check(ok_p, "C03d-decoy-path-dropped", f,
              "without decoys only the decoy path (position 1) is dropped",
              f"changes of out_paths: {[ast.unparse(p)[:60] for p in pops]} "
              f"under {[cfg.conditions(p) for p in pops]}",
              node=f.node)
    # assign_confidence: position 0 = targets path, 1 = decoys path
    g = prog.func(AC)
    _path_order(ctx, g)
    # rollup: which rows go to which output path (sink-driven)
    r = prog.func("mokapot.brew_rollup.do_rollup")
    du3 = DefUse(prog, r)
    T3 = Terms(du3)
    ws = [n for n in ast.walk(r.node) if isinstance(n, ast.Call)
          and isinstance(n.func, ast.Attribute) and n.func.attr == "write"
          and len(n.args) == 1]
    # one write inside  for w, m in zip(writers, (mask0, mask1)):  stands
    # for one write per position of the display
    pairs = []          # (receiver term, argument term, node)
    for w in ws:
        recv, arg = T3.of(w.func.value), T3.of(w.args[0])
        zs = [x for x in walk_term(("tuple", (recv, arg)))
              if isinstance(x, tuple) and x and x[0] == "zipelem"]
        zargs = {z[2] for z in zs}
        disp = None
        if len(zargs) == 1:
            za = next(iter(zargs))
            lens = {len(a[1]) for a in za if a[0] in ("tuple", "list")}
            if len(lens) == 1 and 1 <= next(iter(lens)) <= 4:
                disp = (za, next(iter(lens)))
        if disp is None:
            pairs.append((recv, arg, w))
            continue
        za, n_ = disp
        for i_ in range(n_):
            def at(x, i_=i_, za=za):
                if x[0] == "zipelem" and x[2] == za:
                    a = za[x[1]]
                    return a[1][i_] if a[0] in ("tuple", "list") else (
                        "sub", a, ("const", i_))
                return x
            pairs.append((map_term(recv, at), map_term(arg, at), w))
    ctx.require(len(pairs) >= 2, f"{r.qual}: output writes not found")

    def strip_store(t):
        while t[0] in ("store", "mut"):
            t = t[1]
        return t

    def decoy_parity(m, frame):
        """number of negations around frame['is_decoy'](.values), or None"""
        k = 0
        while True:
            if m[0] == "un" and m[1] == "~":
                m, k = m[2], k + 1
            elif m[0] == "attr" and m[2] == "values":
                m = m[1]
            else:
                break
        if m[0] == "sub" and m[2] == ("const", "is_decoy") and \
                strip_store(m[1]) == strip_store(frame):
            return k
        return None

    routes = []
    path_lists = set()
    for recv, arg, w in pairs:
        ps = positional(recv)
        src = mapped_over(prog, ps[0]) if ps else None
        names = None
        if src is not None and src[0] == "sub":
            dct = expand_const_comp(src[1])
            if dct[0] == "comp" and dct[1] == "dict" and \
                    dct[2][0] == "tuple" and dct[2][1][1][0] == "list":
                elts = dct[2][1][1][1]
                path_lists.add(elts)
                if ps[1] < len(elts):
                    names = literal_parts(elts[ps[1]])
        par = None
        if arg[0] == "sub" and arg[1][0] == "attr" and arg[1][2] == "loc" \
                and arg[2][0] == "tuple" and len(arg[2][1]) == 2:
            par = decoy_parity(arg[2][1][0], arg[1][1])
        routes.append((ps[1] if ps else None, names, par))
    ok_r = len(routes) == 2 and all(
        nm is not None and par is not None for _i, nm, par in routes)
    if ok_r:
        for _i, nm, par in routes:
            is_t = any("targets." in x for x in nm) and not any(
                "decoys." in x for x in nm)
            is_d = any("decoys." in x for x in nm) and not any(
                "targets." in x for x in nm)
            ok_r = ok_r and ((is_t and par % 2 == 1)
                             or (is_d and par % 2 == 0))
        ok_r = ok_r and sorted(i for i, _n, _p in routes) == [0, 1]
    ctx.check(ok_r, "C03d-rollup-mask-order", r,
              "rollup writes the rows that are not is_decoy to the targets "
              "path and the is_decoy rows to the decoys path",
              "(position, path strings, negations of is_decoy): "
              f"{routes}", node=ws[0])
    ok_f = len(path_lists) == 1
    if ok_f:
        e = [literal_parts(x) for x in next(iter(path_lists))]
        ok_f = len(e) == 2 and any("targets." in x for x in e[0]) and any(
            "decoys." in x for x in e[1])
    ctx.check(ok_f, "C03d-rollup-path-order", r,
              "rollup out_files[level] = [targets path, decoys path]",
              "rollup output paths are not [targets, decoys]", node=r.node)
    # is_decoy: False for target files, True for decoy files - read off the
    # readers handed to the merging reader
    mr = [n for n in ast.walk(r.node) if isinstance(n, ast.Call)
          and callee_is(prog, r, n, "MergedTabularDataReader")]
    ctx.require(len(mr) == 1, f"{r.qual}: merging reader not found")
    mrb = prog.bind(prog.func(
        "mokapot.streaming.MergedTabularDataReader.__init__"), mr[0])
    ctx.require(mrb.get("readers") is not None, f"{r.qual}: merging reader "
                "built without readers")
    flags = []
    for kind, part in concat_parts(T3.of(mrb["readers"])):
        ent = {"flag": None, "pattern": None, "column": None}
        if kind == "splice" and part[0] == "comp" and len(part[3]) == 1:
            files = part[3][0][1]
            b = bound_args(prog, part[2]) or {}
            ent["column"] = b.get("column", (None, None))[1]
            lam = b.get("func")
            if lam and lam[0] == "lambda":
                c = np_call(lam[2])
                if c and c[0] == "full" and len(c[1]) == 2 and \
                        c[1][1][0] == "const":
                    ent["flag"] = c[1][1][1]
            rd = b.get("reader")
            if rd is not None and any(x == ("elem", files)
                                      for x in walk_term(rd)):
                pats = [x for x in term_strings(merge_fstr(files))
                        if ".targets." in x or ".decoys." in x]
                ent["pattern"] = sorted(set(
                    "targets" if ".targets." in x else "decoys"
                    for x in pats))
        flags.append(ent)
    ok_d = sorted((e["flag"], tuple(e["pattern"] or ()), e["column"])
                  for e in flags if e["flag"] is not None) == [
        (False, ("targets",), "is_decoy"), (True, ("decoys",), "is_decoy")] \
        and len(flags) == 2
    ctx.check(ok_d, "C03d-rollup-decoy-flag", r,
              "rows read from *.targets.* files are flagged is_decoy=False, "
              "rows from *.decoys.* files True",
              f"computed columns: {flags}", node=mr[0])
    ok_g = len(flags) == 2 and all(e["pattern"] for e in flags)
    ctx.check(ok_g, "C03d-rollup-input-patterns", r,
              "the files behind the readers are globbed from *.targets.* / "
              "*.decoys.* patterns", f"{flags}", node=r.node)


# ------------------------------------------------------------------ e
def _retained_rows(ctx):
    prog = ctx.prog
    f = prog.func("mokapot.confidence.LinearConfidence._assign_confidence")
    du = DefUse(prog, f)
    T = Terms(du)
    LP = ("param", "level_paths")
    loops = []
    for n in walk_own(f.node):
        if isinstance(n, ast.For):
            it = T.of(n.iter)
            if it[0] == "call" and it[1] == "builtins.zip" and LP in it[2]:
                loops.append(n)
    ctx.require(len(loops) == 1, f"{f.qual}: level loop not found")
    lp = loops[0]
    from ..proto import Calls
    cl = Calls(prog, f, du=du, T=T)
    reads = [(t, n) for t, n in cl.mcalls("read") if inside(n, lp)
             and t[1][0] == "call" and t[1][1] ==
             "mokapot.tabular_data.TabularDataReader.from_path"
             and t[1][2]]
    wtd = [(t, n) for t, n in cl.mcalls("write_to_disk", ("param", "self"))
           if inside(n, lp)]
    ctx.require(len(reads) == 1 and len(wtd) == 1,
                f"{f.qual}: read/write_to_disk idiom not recognised")
    rp = reads[0][0][1][2][0]
    wfun = prog.func("mokapot.confidence.Confidence.write_to_disk")
    wb = prog.bind(wfun, wtd[0][1])
    wparams = [p_ for p_ in wfun.params if p_ != "self"]
    ctx.require(wparams and wparams[0] in wb,
                f"{f.qual}: data path of write_to_disk not bound")
    wp = T.of(wb[wparams[0]])
    wtd = [wtd[0][1]]
    ctx.check(rp == wp and rp[0] == "zipelem", "C03e-same-level-file", f,
              "q-values are computed from the level file that "
              "write_to_disk re-reads",
              f"statistics read {show(rp, 60)}, rows written from "
              f"{show(wp, 60)}", node=wtd[0])
    # scores / targets / qvals all from that one frame
    stores = {a: v for (r, a, v, st) in du.attr_stores if r == "self"
              and any(x is st for x in ast.walk(lp))}
    sc = T.of(stores["scores"]) if "scores" in stores else None
    ok_s = False
    data_t = None
    for (r, a, v, st) in du.attr_stores:
        if r == "self" and a == "scores":
            t = T.of(v)
            if _has_attr(t, "_score_column") and _has_read(t):
                data_t = t
                ok_s = True
    tg_ok = False
    for (r, a, v, st) in du.attr_stores:
        if r == "self" and a == "targets":
            t = T.of(v)
            tg_ok = _has_attr(t, "_target_column") and _has_read(t) and any(
                x[0] == "call" and x[1] ==
                "mokapot.utils.convert_targets_column" for x in walk_term(t))
    ctx.check(ok_s and tg_ok, "C03e-stats-from-level-file", f,
              "scores and (converted) target flags are columns of the "
              "level file read in this iteration",
              "scores/targets are not taken from the level file",
              node=lp)
    qv = [v for (r, a, v, st) in du.attr_stores if r == "self"
          and a == "qvals"]
    SELF_ = ("param", "self")
    ok_q = False
    if len(qv) == 1:
        qt = T.of(qv[0])
        qb = (bound_args(prog, qt) or {}) if qt[0] == "call" else {}
        vals = list(qb.values()) if qb else (
            list(qt[2]) if qt[0] == "call" else [])
        st_t = {}
        for (r, a, v, st) in du.attr_stores:
            if r == "self" and a in ("scores", "targets"):
                st_t.setdefault(a, []).append(T.of(v))
        ok_q = len(vals) >= 2 and vals[0] in [
            ("attr", SELF_, "scores")] + st_t.get("scores", []) and \
            vals[1] in [("attr", SELF_, "targets")] + st_t.get("targets", [])
    ctx.check(ok_q, "C03e-qvalues-on-retained-rows", f,
              "q-values are computed from exactly these scores and flags",
              f"qvals = {[ast.unparse(v)[:80] for v in qv]}", node=lp)
    # write_to_disk zips the file chunks with qvals / peps / targets chunks
    w = prog.func("mokapot.confidence.Confidence.write_to_disk")
    wc = [n for n in walk_own(w.node) if isinstance(n, ast.Call)
          and prog.resolve_call(w, w.module, n)[1] == [
              "mokapot.confidence_writer.write_confidences"]]
    ctx.require(len(wc) == 1, f"{w.qual}: write_confidences call not found")
    wcf = prog.func("mokapot.confidence_writer.write_confidences")
    b = prog.bind(wcf, wc[0])
    Tw = Terms(DefUse(prog, w))

    def chunk_source(t):
        """(data term, chunk size term) of create_chunks(data, size), also
        through a local one-line wrapper"""
        if t[0] != "call":
            return None
        if t[1] == "mokapot.utils.create_chunks":
            cc = prog.func(t[1])
            ba = dict(zip(cc.params, t[2]))
            ba.update(dict(t[3]))
            return ba.get(cc.params[0]), ba.get(cc.params[1])
        wf = prog.funcs.get(t[1])
        if wf is not None and len(t[2]) == 1 and not t[3] and len(
                wf.params) == 1:
            rt = Terms(DefUse(prog, wf)).returns()
            if len(rt) == 1:
                inner = chunk_source(rt[0][1])
                if inner and inner[0] in (("param", wf.params[0]),
                                          ("lparam", wf.params[0])):
                    return t[2][0], inner[1]
        return None

    got = {}
    for formal, attr in (("q_value_iterator", "qvals"),
                         ("pep_iterator", "peps"),
                         ("target_iterator", "targets")):
        e = b.get(formal)
        from ..tutil import apply_partials
        cs = chunk_source(apply_partials(simp(items_as_subs(
            expand_const_comp(Tw.of(e)))))) if e is not None else None
        got[formal] = cs
        if e is not None and cs is None:
            raise AnalysisError(
                f"{w.qual}: how {formal} is chunked is written in a form "
                f"the rule does not read: {show(Tw.of(e), 100)}")
    ok_b = all(
        got[fm] is not None and got[fm][0] == ("attr", ("param", "self"), at)
        for fm, at in (("q_value_iterator", "qvals"),
                       ("pep_iterator", "peps"),
                       ("target_iterator", "targets")))
    sizes = {cs[1] for cs in got.values() if cs}
    di = Tw.of(b["data_iterator"]) if "data_iterator" in b else None
    from ..tutil import bound_margs
    dsz = (bound_margs(prog, di) or {}).get("chunk_size") \
        if di is not None else None
    ok_size = len(sizes) == 1 and di is not None and di[0] == "mcall" and \
        di[2] == "get_chunked_data_iterator" and dsz in sizes
    ctx.check(ok_b and ok_size, "C03e-columns-attached", w,
              "q-values, PEPs and target flags are chunked like the level "
              "file and each is bound to its own formal of "
              "write_confidences",
              "binding: " + str({k: (show(v[0], 40), show(v[1], 50))
                                 if v else None for k, v in got.items()})
              + f"; rows from {show(di, 100) if di else None}",
              node=wc[0])
    # and write_confidences assigns them to the right column
    Tc = Terms(DefUse(prog, wcf), phi_vars=True)
    col_of = {}
    for n in ast.walk(wcf.node):
        if isinstance(n, ast.Assign) and len(n.targets) == 1 and isinstance(
                n.targets[0], ast.Subscript):
            base = Tc.of(n.targets[0].value)
            val = Tc.of(n.value)
            col = Tc.of(n.targets[0].slice)
            while base[0] == "store":
                base = base[1]
            if base[0] == "zipelem" and base[2][base[1]] == (
                    "param", "data_iterator") and val[0] == "zipelem" and \
                    val[2] == base[2] and col[0] == "param":
                col_of[col[1]] = val[2][val[1]]
    ok_c = col_of.get("qvalue_column") == ("param", "q_value_iterator") and \
        col_of.get("pep_column") == ("param", "pep_iterator")
    ctx.check(ok_c, "C03e-columns-attached", wcf,
              "q-value chunk -> q-value column, PEP chunk -> PEP column of "
              "the same data chunk",
              "statistic chunks are stored as "
              + str({k: show(v, 40) for k, v in col_of.items()}),
              node=wcf.node)
    # renaming pairs lists of equal shape: sink-driven - the mapping handed
    # to get_dataframe_from_records is dict(zip(IN, OUT)) (any spelling);
    # IN and OUT, however they are built (display, +, append, extend), have
    # the same length and their spliced parts at the same positions
    from ..tutil import dict_from_zip
    g = prog.func(AC)
    gT = Terms(DefUse(prog, g))
    gc = Calls(prog, g, T=gT)
    lists = {}
    maps = set()
    GDR = "mokapot.utils.get_dataframe_from_records"
    for t_, _n in gc.calls(GDR):
        b_ = bound_args(prog, t_) or {}
        if b_.get("column_mapping") is not None:
            maps.add(b_["column_mapping"])
    for t_, _n in gc.calls("functools.partial"):
        # functools.partial(get_dataframe_from_records, ..., mapping, ...)
        if t_[2] and t_[2][0] in (("name", GDR), ("free", GDR)):
            b_ = bound_args(prog, ("call", GDR, tuple(t_[2][1:]),
                                   t_[3])) or {}
            if b_.get("column_mapping") is not None:
                maps.add(b_["column_mapping"])
    ctx.require(len(maps) == 1, f"{g.qual}: the column mapping handed to "
                f"get_dataframe_from_records was not found ({len(maps)})")
    zz = dict_from_zip(next(iter(maps)))
    ctx.require(zz is not None, f"{g.qual}: the column mapping is not "
                "dict(zip(in, out)): " + show(next(iter(maps)), 100))

    def shape_of(t):
        d = _list_elements(t)
        if d is None:
            raise AnalysisError(
                f"{g.qual}: a column list of the rename is built in a form "
                f"the rule does not read: {show(t, 100)}")
        return [("*", tkey(no_uids(x[1]))) if x[0] == "star" else "x"
                for x in d]
    lists = {"in_metadata_columns": shape_of(zz[0]),
             "out_metadata_columns": shape_of(zz[1])}
    ok_l = lists["out_metadata_columns"] == lists["in_metadata_columns"]
    ctx.check(ok_l, "C03e-rename-shape", g,
              "input and output column lists have the same shape (length, "
              "starred parts at the same positions)", f"{lists}",
              node=g.node)


def _has_attr(t, attr):
    return any(x[0] == "attr" and x[2] == attr and x[1] == ("param", "self")
               for x in walk_term(t))


def _has_read(t):
    return any(x[0] == "mcall" and x[2] == "read" for x in walk_term(t))


def _chunk_sizes(prog, f):
    """[(kind, size term, node)] for every chunked read and every
    create_chunks in ``f``, sizes as terms with temporaries and import
    aliases resolved"""
    from ..proto import Calls
    from ..tutil import bound_margs
    out = []
    try:
        c = Calls(prog, f)
    except Exception:  # noqa: BLE001
        return out
    for t, n in c.items:
        if t[0] == "mcall" and t[2] in ("get_chunked_data_iterator",
                                        "read_data", "iter_batches"):
            b = bound_margs(prog, t) or dict(t[4])
            cs = b.get("chunk_size") or b.get("batch_size")
            if cs is None and t[3] and t[2] != "read_data":
                cs = t[3][0]
            if cs is not None:
                out.append(("read", cs, n))
        elif t[0] == "call" and t[1] == "mokapot.utils.create_chunks":
            b = bound_args(prog, t) or {}
            cs = b.get("chunk_size")
            if cs is not None:
                out.append(("chunks", cs, n))
    return out


def chunk_size_agreement(ctx, rule):
    """Within one function, every chunked read and every create_chunks that
    can be zipped together must use the same chunk-size expression."""
    prog = ctx.prog
    n_sites = 0
    for q in sorted(prog.funcs):
        f = prog.funcs[q]
        if isinstance(f.node, ast.Lambda) or not q.startswith("mokapot."):
            continue
        if not any(isinstance(n, ast.Attribute) and n.attr in (
                "get_chunked_data_iterator", "read_data", "iter_batches")
                or isinstance(n, ast.Name) and n.id == "create_chunks"
                or isinstance(n, ast.Attribute) and n.attr == "create_chunks"
                for n in ast.walk(f.node)):
            continue
        sizes = _chunk_sizes(prog, f)
        kinds = {k for k, _s, _n in sizes}
        if kinds != {"read", "chunks"}:
            # nested helper (write_to_disk.chunked) uses the enclosing scope
            for nf in f.nested.values():
                sizes += _chunk_sizes(prog, nf)
            kinds = {k for k, _s, _n in sizes}
            if kinds != {"read", "chunks"}:
                continue
        n_sites += 1
        vals = {tkey(no_uids(s_)) for _k, s_, _n in sizes}
        ctx.check(len(vals) == 1, rule, f,
                  "file chunks and the score/statistic slices zipped with "
                  "them use one chunk size",
                  f"different chunk sizes in one zip: {sorted(vals)}; rows "
                  "and their scores/q-values drift apart after the first "
                  "chunk", node=sizes[0][2], detail=str(sorted(vals)))
    ctx.floor(rule, n_sites, 3)


# ------------------------------------------------------------------ f
def _collections_independent(ctx, f):
    """Every container that is updated inside the per-collection loop is
    created inside it (nothing one collection recorded can suppress or join
    rows of another), and the result paths carry the collection's prefix.
    Read off container events and terms - no variable is named here."""
    from ..events import container_events
    prog = ctx.prog
    cfg = CFG(f.node)
    du = DefUse(prog, f)
    Tv = Terms(du, phi_vars=True)
    T = Terms(du)
    loops = []
    for n in walk_own(f.node):
        if isinstance(n, ast.For):
            it = T.of(n.iter)
            if it[0] == "call" and it[1] == "builtins.zip" and \
                    ("param", "prefixes") in it[2] and \
                    ("param", "psms") in it[2][:1]:
                loops.append(n)
    ctx.require(len(loops) == 1, f"{f.qual}: collection loop not found")
    cl = loops[0]
    PREFIX_I = T.of(cl.iter)[2].index(("param", "prefixes"))
    evs = [e for e in container_events(f.node, Tv, cfg) if inside(e.node, cl)]
    roots = {}
    for e in evs:
        r = root_name(e.recv)
        if r is not None:
            roots.setdefault(r, e)
    ctx.floor("C03f-containers-updated-per-collection", len(roots), 3)
    params = set(f.params)
    for name, e in sorted(roots.items()):
        defs = [d for d in du.defs if d.name == name and d.node is not None
                and d.kind in ("assign", "for", "with", "comp")]
        ok = name not in params and bool(defs) and all(
            inside(d.node, cl) for d in defs)
        ctx.check(ok, "C03f-per-collection-state", f,
                  f"'{name}' is created afresh for every collection",
                  f"'{name}' is updated for every collection but created "
                  "outside the per-collection loop: rows of one collection "
                  "suppress or join those of another",
                  node=defs[0].node if defs else e.node)
    # result paths: what LinearConfidence receives as out_paths
    from ..proto import Calls
    lc = Calls(prog, f, du=du, T=Tv, cfg=cfg).calls(
        "mokapot.confidence.LinearConfidence")
    ctx.require(len(lc) == 1, f"{f.qual}: LinearConfidence(...) not found")
    b = bound_args(prog, lc[0][0]) or {}
    op = b.get("out_paths")
    OUT = root_name(op[2]) if op is not None and op[0] == "comp" else None
    ctx.require(OUT is not None, f"{f.qual}: container of the result paths "
                "not found")
    Te = Terms(du)
    pe = [e for e in container_events(f.node, Te, cfg)
          if inside(e.node, cl)]
    vals = []
    for e in container_events(f.node, Tv, cfg):
        if root_name(e.recv) != OUT or not inside(e.node, cl):
            continue
        # re-read the value with temporaries resolved
        if e.kind == "store" and isinstance(e.stmt, ast.Assign):
            vt = Te.of(e.stmt.value)
            vals.extend(vt[1] if vt[0] == "list" else [vt])
        elif e.kind in ("append", "insert") and e.node.args:
            vals.append(Te.of(e.node.args[-1]))
    ok = bool(vals) and all(
        any(isinstance(x, tuple) and x[:2] == ("zipelem", PREFIX_I)
            for x in walk_term(v)) for v in vals)
    ctx.check(ok, "C03f-prefix-in-file-names", f,
              "result file names carry the collection's prefix",
              "a result path does not depend on the collection prefix: "
              f"{[show(v, 80) for v in vals if not any(isinstance(x, tuple) and x[:2] == ('zipelem', PREFIX_I) for x in walk_term(v))][:2]}",
              node=cl)
