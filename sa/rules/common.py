"""Clauses shared by several property modules."""

from __future__ import annotations

from ..defuse import show
from ..proto import Calls
from ..tutil import bound_args

MAIN = "mokapot.mokapot.main"
CONFIG = "mokapot.config.Config"


def _option(t):
    """('opt', name, negated) when the term is <config>.name or
    not <config>.name, else None."""
    neg = False
    if t is not None and t[0] == "un" and t[1] == "not":
        neg, t = True, t[2]
    if t is not None and t[0] == "attr" and t[1][0] == "call" and \
            t[1][1] == CONFIG:
        return ("opt", t[2], neg)
    return None


def cli_routing(ctx, rule, callee, table, what):
    """In the command line entry point, ``callee`` receives each formal of
    ``table`` from the option the table names: formal -> option name, or
    ('not', option name).  Judged on the bound argument terms (keyword or
    positional, temporaries seen through)."""
    prog = ctx.prog
    m = prog.func(MAIN)
    c = Calls(prog, m)
    sites = c.calls(callee)
    ctx.require(len(sites) >= 1, f"{m.qual}: no call of {callee}")
    for t, node in sites:
        b = bound_args(prog, t) or {}
        for formal, want in sorted(table.items()):
            neg = isinstance(want, tuple)
            name = want[1] if neg else want
            got = _option(b.get(formal))
            ctx.check(got == ("opt", name, neg), rule, m,
                      f"{callee.split('.')[-1]}({formal}=...) <- "
                      f"{'not ' if neg else ''}--{name}",
                      f"{formal} = "
                      f"{show(b[formal], 80) if formal in b else 'default'}"
                      f": the command line option --{name} does not reach "
                      f"{what}", node=node)


READ_FASTA = "mokapot.parsers.fasta.read_fasta"
FASTA_DIGEST_OPTIONS = {
    "enzyme": "enzyme", "missed_cleavages": "missed_cleavages",
    "clip_nterm_methionine": "clip_nterm_methionine",
    "min_length": "min_length", "max_length": "max_length", "semi": "semi",
}
FASTA_OPTIONS = dict(FASTA_DIGEST_OPTIONS, fasta_files="proteins",
                     decoy_prefix="decoy_prefix")
