"""Clauses shared by several property modules."""

from __future__ import annotations

import ast

from ..astutil import inside
from ..defuse import show
from ..events import container_events, root_name
from ..proto import Calls
from ..tutil import bound_args

MAIN = "mokapot.mokapot.main"
CONFIG = "mokapot.config.Config"


def _option(t):
    """('opt', name, negated) when the term is <config>.name or
    not <config>.name, else None."""
    neg = False
    if t is not None and t[0] == "un" and t[1] == "not":
        neg, t = True, t[2]
    if t is not None and t[0] == "attr" and t[1][0] == "call" and \
            t[1][1] == CONFIG:
        return ("opt", t[2], neg)
    return None


def cli_routing(ctx, rule, callee, table, what):
    """In the command line entry point, ``callee`` receives each formal of
    ``table`` from the option the table names: formal -> option name, or
    ('not', option name).  Judged on the bound argument terms (keyword or
    positional, temporaries seen through)."""
    prog = ctx.prog
    m = prog.func(MAIN)
    c = Calls(prog, m)
    sites = c.calls(callee)
    ctx.require(len(sites) >= 1, f"{m.qual}: no call of {callee}")
    for t, node in sites:
        b = bound_args(prog, t) or {}
        for formal, want in sorted(table.items()):
            neg = isinstance(want, tuple)
            name = want[1] if neg else want
            got = _option(b.get(formal))
            ctx.check(got == ("opt", name, neg), rule, m,
                      f"{callee.split('.')[-1]}({formal}=...) <- "
                      f"{'not ' if neg else ''}--{name}",
                      f"{formal} = "
                      f"{show(b[formal], 80) if formal in b else 'default'}"
                      f": the command line option --{name} does not reach "
                      f"{what}", node=node)


READ_FASTA = "mokapot.parsers.fasta.read_fasta"
FASTA_DIGEST_OPTIONS = {
    "enzyme": "enzyme", "missed_cleavages": "missed_cleavages",
    "clip_nterm_methionine": "clip_nterm_methionine",
    "min_length": "min_length", "max_length": "max_length", "semi": "semi",
}
FASTA_OPTIONS = dict(FASTA_DIGEST_OPTIONS, fasta_files="proteins",
                     decoy_prefix="decoy_prefix")


PURE_GROWTH = {"append", "extend", "add", "update", "insert", "store", "aug",
               "setdefault", "appendleft"}


def loop_carried_state(ctx, f, du, Tv, cfg, loop, rule, what, floor):
    """No container that one iteration of ``loop`` both fills and reads is
    created outside the loop: what one iteration (one collection, one file)
    recorded cannot show up in the result of the next.  A container created
    before the loop that the iterations only *add to* (a result accumulator,
    read after the loop) is not state carried between iterations and is
    left alone.  Read off container events and definitions; no variable is
    named."""
    evs = [e for e in container_events(f.node, Tv, cfg)
           if inside(e.node, loop)]
    roots = {}
    for e in evs:
        r = root_name(e.recv)
        if r is not None:
            roots.setdefault(r, []).append(e)
    ctx.floor(rule + "-containers", len(roots), floor)
    params = set(f.params)
    for name, es in sorted(roots.items()):
        if name in params:
            continue
        created = [d for d in du.defs if d.name == name
                   and d.node is not None and d.kind not in (
                       "mut", "store", "augstore", "delitem", "del")]
        outside = [d for d in created if not inside(d.node, loop)]
        written = set()
        for e in es:
            if e.kind in PURE_GROWTH:
                n = e.node
                recv = n.func.value if isinstance(n, ast.Call) else getattr(
                    n, "value", None)
                for x in ast.walk(recv) if recv is not None else ():
                    written.add(id(x))
        reads = [n for n in ast.walk(loop) if isinstance(n, ast.Name)
                 and n.id == name and isinstance(n.ctx, ast.Load)
                 and id(n) not in written]
        ok = not outside or not reads
        ctx.check(ok, rule, f,
                  f"'{name}' is created afresh for every {what} (or only "
                  f"added to and read after the loop)",
                  f"'{name}' is created before the loop over the {what}s "
                  f"(line {outside[0].node.lineno if outside else 0}), "
                  f"filled inside it and read inside it (line "
                  f"{reads[0].lineno if reads else 0}): what one {what} "
                  f"recorded is still there for the next",
                  node=(reads[0] if reads else es[0].node))
