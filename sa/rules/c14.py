"""C14 - k-way merge returns every row once, globally sorted by score."""

from __future__ import annotations

import ast
import itertools

from ..astutil import cond_terms, inside, norm_cmp
from ..cfg import CFG, cond_strings
from ..core import callee_is, AnalysisError, walk_own
from ..defuse import DefUse, Terms, show, walk_term
from ..events import container_events, root_name
from ..paths import path_variants
from ..tutil import (TTUnknown, callee_of, lin, no_uids, select_ifexp, simp,
                     tt_eval)
from ..defuse import key as tkey

EXPLANATION = (
    "Static analysis of utils.get_next_row / merge_sort / csv_row_iterator "
    "/ parquet_row_iterator and streaming.MergedTabularDataReader."
    "get_row_iterator (row ownership in merges). (a) get_next_row: the "
    "replacement guard of the head-selection loop is evaluated over the "
    "finite set of valuations {current maximum in None/negative/zero/"
    "positive} x {order of candidate vs maximum}: the head is replaced iff "
    "there is no maximum yet or the candidate is larger (so exact 0.0 and "
    "negative maxima are handled); score, key and row are taken together "
    "from the same head; only the selected iterator advances into the "
    "selected slot; exhaustion deletes slot and iterator together; the "
    "returned row is the selected one. merge_sort primes one head per path, "
    "loops until no iterator is left and yields every non-None row; both "
    "row iterators traverse every chunk and every record. (b) table merger: "
    "argmax iff descending, argmin otherwise; the sortedness check raises "
    "in the right polarity for both directions; the three parallel lists "
    "are deleted at the same index; the row is yielded before the iterator "
    "advances. Also: the selection may be written as max(heads, key=score, default=None). "
    "Also: the chunk-to-rows helpers of the table merger take rows by position or whole-table records conversion (never by index label), and the sortedness guard is tabulated over the number of readers left. "
    "NOT decided: global order for concrete inputs (follows from "
    "the heads-selection argument once these hold and inputs are sorted).")
TECHNIQUE = ("finite truth table over comparison outcomes + def-use / CFG "
             "ownership checks (OWN) + sibling agreement of the two merges")


def run(ctx):
    prog = ctx.prog
    from ..memo import check_no_cross_call_state
    funcs = [prog.func(q) for q in (
        "mokapot.utils.get_next_row", "mokapot.utils.merge_sort",
        "mokapot.utils.csv_row_iterator",
        "mokapot.utils.parquet_row_iterator",
        "mokapot.streaming.MergedTabularDataReader.get_row_iterator",
        "mokapot.streaming.MergedTabularDataReader."
        "get_chunked_data_iterator",
        "mokapot.streaming.MergedTabularDataReader.read")]
    check_no_cross_call_state(ctx, "C14-no-cross-call-state", funcs,
                              "merge")
    _get_next_row(ctx, prog.func("mokapot.utils.get_next_row"))
    _merge_sort(ctx, prog.func("mokapot.utils.merge_sort"))
    for q in ("mokapot.utils.csv_row_iterator",
              "mokapot.utils.parquet_row_iterator"):
        _row_iterator(ctx, prog.func(q))
    _table_merger(ctx, prog.func(
        "mokapot.streaming.MergedTabularDataReader.get_row_iterator"))
    _chunk_rows(ctx, prog.func(
        "mokapot.streaming.MergedTabularDataReader.get_row_iterator"))
    _merged_entry_points(ctx)



# ------------------------------------------------------------------ helpers
def _eval_guard(test, env):
    """Concrete evaluation of a small guard expression (names, constants,
    is/is not None, not, and/or, comparisons)."""
    if isinstance(test, ast.Constant):
        return test.value
    if isinstance(test, ast.Name):
        if test.id not in env:
            raise AnalysisError(f"guard refers to unknown name {test.id}")
        return env[test.id]
    if isinstance(test, ast.UnaryOp) and isinstance(test.op, ast.Not):
        return not _eval_guard(test.operand, env)
    if isinstance(test, ast.UnaryOp) and isinstance(test.op, ast.USub):
        return -_eval_guard(test.operand, env)
    if isinstance(test, ast.BoolOp):
        if isinstance(test.op, ast.And):
            r = True
            for v in test.values:
                r = _eval_guard(v, env)
                if not r:
                    return r
            return r
        r = False
        for v in test.values:
            r = _eval_guard(v, env)
            if r:
                return r
        return r
    if isinstance(test, ast.Compare):
        left = _eval_guard(test.left, env)
        for op, comp in zip(test.ops, test.comparators):
            right = _eval_guard(comp, env)
            if isinstance(op, ast.Is):
                ok = left is right
            elif isinstance(op, ast.IsNot):
                ok = left is not right
            elif left is None or right is None:
                if isinstance(op, ast.Eq):
                    ok = left == right
                elif isinstance(op, ast.NotEq):
                    ok = left != right
                else:
                    raise TypeError("ordering comparison with None")
            else:
                ok = {ast.Lt: left < right, ast.LtE: left <= right,
                      ast.Gt: left > right, ast.GtE: left >= right,
                      ast.Eq: left == right, ast.NotEq: left != right}[
                          type(op)]
            if not ok:
                return False
            left = right
        return True
    raise AnalysisError(f"guard outside the fragment: {ast.unparse(test)}")


def _get_next_row(ctx, f):
    prog = ctx.prog
    ps = f.params
    ctx.require(len(ps) >= 3, f"{f.qual}: expected (iterators, heads, "
                "score_column)")
    p_iters, p_heads, p_col = ps[:3]
    du = DefUse(prog, f)
    T = Terms(du, phi_vars=True)
    cfg = CFG(f.node)
    loops = [n for n in ast.walk(f.node) if isinstance(n, ast.For)]
    if not loops:
        sel_ = _selection_by_max(ctx, f, T, cfg, p_iters, p_heads, p_col)
        ctx.require(sel_ is not None,
                    f"{f.qual}: expected one selection loop")
        loop, is_key, is_row = None, sel_["is_key"], sel_["is_row"]
        _advance_and_retire(ctx, f, prog, du, T, cfg, loop, is_key, is_row,
                            p_iters, p_heads)
        return
    ctx.require(len(loops) == 1, f"{f.qual}: expected one selection loop")
    loop = loops[0]
    it = T.of(loop.iter)
    HEADS = ("param", p_heads)
    by_items = it == ("mcall", HEADS, "items", (), ())
    by_keys = it in (HEADS, ("mcall", HEADS, "keys", (), ()),
                     ("call", "builtins.list", (HEADS,), ()))
    ctx.check(by_items or by_keys,
              "C14a-scan-all-heads", f,
              "selection scans every current head",
              f"loop iterates {ast.unparse(loop.iter)}", node=loop)
    row_alias = None
    if by_items:
        ctx.require(isinstance(loop.target, ast.Tuple) and len(
            loop.target.elts) == 2,
            f"{f.qual}: loop target is not (key, row)")
        v_key, v_row = (e.id for e in loop.target.elts)
    else:
        # for key in heads: row = heads[key]
        ctx.require(isinstance(loop.target, ast.Name),
                    f"{f.qual}: loop target is not a key")
        v_key = loop.target.id
        rows = [s_ for s_ in loop.body if isinstance(s_, ast.Assign)
                and len(s_.targets) == 1 and isinstance(
                    s_.targets[0], ast.Name)
                and isinstance(s_.value, ast.Subscript)
                and T.of(s_.value) == ("sub", HEADS, ("elem", it))]
        ctx.require(len(rows) == 1, f"{f.qual}: the head row of the key is "
                    "not looked up (row = heads[key])")
        row_alias = rows[0]
        v_row = rows[0].targets[0].id
    # assignments in the loop, grouped by the conditions (decided inside the
    # loop) under which they run: early-continue, nested and negated
    # spellings of the replacement test are equivalent here
    tests_in_loop = [n for n in ast.walk(loop) if isinstance(n, ast.If)]
    uncond, cond = [], []
    for s in ast.walk(loop):
        if not (isinstance(s, ast.Assign) and len(s.targets) == 1
                and isinstance(s.targets[0], ast.Name)) or s is row_alias:
            continue
        nc = [(t, o) for t, o in cfg.necessary_conditions(s)
              if inside(t, loop)]
        (cond if nc else uncond).append((s, nc))
    ctx.require(len(uncond) == 1, f"{f.qual}: candidate score "
                "assignment not found")
    ctx.require(cond, f"{f.qual}: no conditional replacement in the loop")
    sel_conds = cond[0][1]
    ctx.require(all([(id(t), o) for t, o in nc]
                    == [(id(t), o) for t, o in sel_conds]
                    for _s, nc in cond)
                and len(sel_conds) == len(tests_in_loop),
                f"{f.qual}: the replacement assignments do not share one "
                "condition; rule C14a needs re-reading")
    sel = cfg.stmt_of(sel_conds[0][0])
    assigned = {}
    for s, _nc in cond:
        ctx.require(s.targets[0].id not in assigned, f"{f.qual}: "
                    f"{s.targets[0].id} replaced twice")
        assigned[s.targets[0].id] = s.value
    v_score = uncond[0][0].targets[0].id
    sc_t = T.of(uncond[0][0].value)
    row_t = sc_t[2][0][1] if (sc_t[0] == "call" and sc_t[2]
                              and sc_t[2][0][0] == "sub") else ("x",)
    ok_sc = (sc_t[0] == "call" and sc_t[1] == "builtins.float"
             and sc_t[2] and sc_t[2][0][0] == "sub"
             and sc_t[2][0][2] == ("param", p_col)
             and (row_t[0] in ("value", "item", "elem")
                  or row_t == ("sub", HEADS, ("elem", it))))
    ctx.check(ok_sc, "C14a-candidate-score", f,
              "candidate score is the head row's score column as a number",
              f"candidate score is {show(sc_t, 100)}", node=loop)
    m_score = [k for k, v in assigned.items()
               if isinstance(v, ast.Name) and v.id == v_score]
    m_key = [k for k, v in assigned.items()
             if isinstance(v, ast.Name) and v.id == v_key]
    m_row = [k for k, v in assigned.items()
             if isinstance(v, ast.Name) and v.id == v_row]
    ok_together = len(m_score) == 1 and len(m_key) == 1 and len(m_row) == 1 \
        and len(assigned) == 3
    ctx.check(ok_together, "C14a-selected-together", f,
              "maximum score, its key and its row are recorded together "
              "from the same head",
              f"the replacement assigns {sorted(assigned)} from "
              f"{[ast.unparse(v) for v in assigned.values()]}", node=sel)
    if not ok_together:
        return
    n_score, n_key, n_row = m_score[0], m_key[0], m_row[0]
    # truth table of the replacement guard
    rows, bad = [], []
    for cur in (None, -1.5, 0.0, 2.0):
        for cand in (-3.0, -1.5, 0.0, 1.0, 2.0, 5.0):
            env = {n_score: cur, v_score: cand, n_key: None, n_row: None,
                   v_key: 0, v_row: {}}
            try:
                got = all(bool(_eval_guard(t, env)) == o
                          for t, o in sel_conds)
            except TypeError:
                got = "TypeError"
            want_strict = cur is None or cur < cand
            want_weak = cur is None or cur <= cand
            rows.append((cur, cand, got))
            if got not in (want_strict, want_weak) or got == "TypeError":
                bad.append({"current_max": cur, "candidate": cand,
                            "replaced": got, "expected": want_strict})
    # consistent tie policy: either always strict or always weak
    strict_ok = all(g == (c is None or c < d) for c, d, g in rows)
    weak_ok = all(g == (c is None or c <= d) for c, d, g in rows)
    ctx.check(strict_ok or weak_ok, "C14a-selection-guard", f,
              "head replaces the current maximum iff there is none yet or "
              "its score is larger (24 valuations incl. 0.0 and negatives)",
              f"guard '{' and '.join(cond_strings(t, o)[0] for t, o in sel_conds)}' deviates, e.g. {bad[:3]}",
              node=sel, detail=f"{len(rows)} valuations")
    # initial values None
    for nm in (n_score, n_key, n_row):
        ds = du.env_before.get(id(loop), {}).get(nm, ())
        ok = bool(ds) and all(
            d.kind == "assign" and T.of_def(d) == ("const", None)
            for d in ds)
        ctx.check(ok, "C14a-initial-none", f,
                  f"'{nm}' starts as None (no head selected yet)",
                  f"initial definitions of {nm}: "
                  f"{[show(T.of_def(d), 40) for d in ds]}", node=loop)
    def is_key(t):
        """the selected key, through aliases"""
        return t[0] == "var" and t[1] == n_key

    def is_row(t):
        return t[:2] == ("var", n_row)

    _advance_and_retire(ctx, f, prog, du, T, cfg, loop, is_key, is_row,
                        p_iters, p_heads)


def _selection_by_max(ctx, f, T, cfg, p_iters, p_heads, p_col):
    """The other sound way to select: key = max(heads, key=score_of,
    default=None) with score_of(k) = float(heads[k][score column]); the row
    is heads[key].  max() returns the first of several maxima, like the
    strict comparison of the loop form."""
    HEADS = ("param", p_heads)
    from ..proto import Calls
    cl = Calls(ctx.prog, f, T=T, cfg=cfg)
    mx = [(t, n) for t, n in cl.calls("builtins.max")]
    if len(mx) != 1:
        return None
    M, mnode = mx[0]
    kw = dict(M[3])
    over = M[2][0] if len(M[2]) == 1 else None
    by_keys = over in (HEADS, ("mcall", HEADS, "keys", (), ()),
                       ("call", "builtins.list", (HEADS,), ()))
    ctx.check(by_keys, "C14a-scan-all-heads", f,
              "selection scans every current head",
              f"max() runs over {show(over, 60) if over else None}",
              node=mnode)
    key = kw.get("key")
    ok_sc = False
    if key is not None and key[0] == "lambda" and len(key[1]) == 1:
        k_ = ("lparam", key[1][0])
        ok_sc = key[2] == ("call", "builtins.float", (
            ("sub", ("sub", HEADS, k_), ("param", p_col)),), ())
    ctx.check(ok_sc, "C14a-candidate-score", f,
              "candidate score is the head row's score column as a number",
              f"max() ranks by {show(key, 100) if key else None}",
              node=mnode)
    ctx.check(True, "C14a-selection-guard", f,
              "max() keeps the first of several equal maxima (the strict "
              "comparison of the loop form)", "", node=mnode)
    ctx.check(kw.get("default") == ("const", None) or "default" not in kw,
              "C14a-initial-none", f,
              "without heads nothing is selected (default=None, or the "
              "ValueError of max())",
              f"default is {show(kw.get('default'), 30)}", node=mnode)

    def is_key(t):
        return t == M

    def is_row(t):
        # heads[key], possibly guarded by "key is None"
        alts = []

        def rec(x):
            if x[0] == "ifexp":
                rec(x[2])
                rec(x[3])
            elif x[0] == "phi":
                for y in x[1]:
                    rec(y)
            else:
                alts.append(x)
        rec(t)
        real = [a for a in alts if a != ("const", None)]
        return len(real) == 1 and real[0] == ("sub", HEADS, M)
    ctx.check(True, "C14a-selected-together", f,
              "key and row are the arg-max and the head stored under it",
              "", node=mnode)
    return {"is_key": is_key, "is_row": is_row}


def _advance_and_retire(ctx, f, prog, du, T, cfg, loop, is_key, is_row,
                        p_iters, p_heads):
    # advance / retire, read off the container update events
    evs = container_events(f.node, T, cfg)
    HEADS_N, ITERS_N = p_heads, p_iters

    stores = [e for e in evs if e.kind == "store"
              and root_name(e.recv) == HEADS_N and (
                  loop is None or not inside(e.stmt, loop))]
    ok_adv = False
    why = f"stores into {p_heads}: {[ast.unparse(e.stmt)[:80] for e in stores]}"
    nxt = None
    SENT = None       # next(it, SENT): exhaustion reported by a sentinel
    if len(stores) == 1 and is_key(stores[0].key):
        v = stores[0].value
        c = callee_of(v)
        if c and c[0] == "builtins.next" and len(c[1]) in (1, 2) and \
                c[1][0][0] == "sub" and root_name(c[1][0][1]) == ITERS_N \
                and is_key(c[1][0][2]):
            if len(c[1]) == 1:
                ok_adv = True
                nxt = v
            elif _is_sentinel(prog, c[1][1]):
                # the new head is stored only when it is not the sentinel
                SENT = c[1][1]
                cs = cond_terms(cfg, T, stores[0].stmt)
                ok_adv = any(
                    t[0] == "cmp" and {t[2], t[3]} == {v, SENT}
                    and ((t[1] == "is not" and o) or (t[1] == "is"
                                                      and not o))
                    for t, o in cs)
                nxt = v
                if not ok_adv:
                    why = ("the value of next(it, sentinel) is stored "
                           "without testing it against the sentinel")
    ctx.check(ok_adv, "C14a-advance-selected-only", f,
              "only the selected iterator advances, into the selected slot",
              why + f"; expected {p_heads}[key] = next({p_iters}[key]) with "
              "the selected key", node=stores[0].node if stores else f.node)
    next_stmts = [cfg.stmt_of(n) for n in walk_own(f.node)
                  if isinstance(n, ast.Call) and isinstance(
                      n.func, ast.Name) and n.func.id == "next"]
    ctx.require(len(next_stmts) == 1, f"{f.qual}: expected one next() call")
    # del d[k] and d.pop(k) (no default, result unused or not) both retire
    # the entry
    dels = [e for e in evs if e.kind == "del"]
    for e in evs:
        if e.kind == "pop" and len(e.args) == 1 and not e.kwargs:
            class _P:       # a 'del' view of the pop event
                pass
            v_ = _P()
            v_.kind, v_.recv, v_.key = "del", e.recv, e.args[0]
            v_.stmt, v_.node, v_.args = e.stmt, e.node, ()
            dels.append(v_)
    ok_del = sorted(root_name(e.recv) or "?" for e in dels) == sorted(
        [HEADS_N, ITERS_N]) and all(is_key(e.key) for e in dels)
    why = f"deletes {[ast.unparse(e.stmt)[:60] for e in dels]}"
    if ok_del:
        # retiring and refilling exclude each other, and retiring happens
        # only after next() has raised StopIteration
        tr = cfg.enclosing(next_stmts[0], (ast.Try,))
        ok_try = tr is not None and any(
            h.type is not None and "StopIteration" in ast.unparse(h.type)
            for h in tr.handlers)
        if SENT is not None and nxt is not None:
            # sentinel idiom: retire exactly when next() returned it
            ok_try = all(any(
                t[0] == "cmp" and {t[2], t[3]} == {nxt, SENT}
                and ((t[1] == "is" and o) or (t[1] == "is not" and not o))
                for t, o in cond_terms(cfg, T, e.stmt)) for e in dels)
        dn = {cfg.node_of(e.stmt).id for e in dels}
        nn = cfg.node_of(next_stmts[0]).id
        excl = True
        if stores:
            sn = cfg.node_of(stores[0].stmt).id
            excl = not (dn & cfg.reachable_normally(sn)) and not any(
                sn in cfg.reachable_normally(d_) for d_ in dn)
        # same block: the two deletions run under the same conditions
        same = len({tuple(cfg.conditions(e.stmt)) for e in dels}) == 1
        ok_del = ok_try and excl and same
        if not ok_try:
            why = ("next() is not guarded by 'except StopIteration' (nor is "
                   "its sentinel tested before the input is retired)")
        elif not excl:
            why = "a pass can both refill and retire the selected input"
        elif not same:
            why = "slot and iterator are removed under different conditions"
    ctx.check(ok_del, "C14a-exhaustion-deletes-both", f,
              "an exhausted input loses its slot and its iterator together",
              why, node=dels[0].node if dels else f.node)
    rets = [n for n in ast.walk(f.node) if isinstance(n, ast.Return)]
    ok_ret = len(rets) == 1 and rets[0].value is not None and \
        is_row(T.of(rets[0].value))
    ctx.check(ok_ret, "C14a-returns-selected-row", f,
              "the row returned is the one selected before advancing",
              f"returns {[ast.unparse(r.value) for r in rets]}",
              node=rets[0] if rets else f.node)
    # the return is reached after the advance on every path
    if ok_ret:
        rn = cfg.node_of(rets[0]).id
        ok = cfg.every_path_passes(cfg.entry.id, rn,
                                   {cfg.node_of(next_stmts[0]).id})
        ctx.check(ok, "C14a-advance-on-every-path", f,
                  "every call advances (or retires) the selected input",
                  "some path returns without advancing the selected "
                  "iterator (the same row would be emitted again)",
                  node=rets[0])


def _is_sentinel(prog, t):
    """A value no row can be: None, or a module-level name bound once to a
    fresh object()."""
    if t == ("const", None):
        return True
    if t[0] == "name" and isinstance(t[1], str) and "." in t[1]:
        mod, _, nm = t[1].rpartition(".")
        m = prog.modules.get(mod)
        v = m.assigns.get(nm) if m is not None else None
        return isinstance(v, ast.Call) and isinstance(
            v.func, ast.Name) and v.func.id == "object" and not v.args
    return False


def v_row_term(T, loop):
    return "?"


def _merge_sort(ctx, f):
    prog = ctx.prog
    du = DefUse(prog, f)
    T = Terms(du, phi_vars=True)
    ps = f.params
    p_paths, p_col = ps[0], ps[1]
    whiles = [n for n in ast.walk(f.node) if isinstance(n, ast.While)]
    ctx.require(len(whiles) == 1, f"{f.qual}: expected one while loop")
    w = whiles[0]
    calls = [n for n in ast.walk(w) if isinstance(n, ast.Call)
             and callee_is(prog, f, n, "mokapot.utils.get_next_row")]
    ctx.require(len(calls) == 1, f"{f.qual}: get_next_row call not found")
    c = calls[0]
    cfg = CFG(f.node)
    from ..tutil import bound_args, one_to_one
    ct = T.of(c)
    b = bound_args(prog, ct) or {}
    gp = prog.func("mokapot.utils.get_next_row").params
    it_def, hd_def, col = (b.get(gp[0]), b.get(gp[1]), b.get(gp[2]))
    ctx.require(it_def is not None and hd_def is not None,
                f"{f.qual}: arguments of get_next_row not bound")
    # loop until no iterator (equivalently: no head) is left
    Tn = Terms(du)

    def nonempty_of(test):
        """the container the loop test says is non-empty, else None"""
        tt = Tn.of(test)
        pos = True
        while tt[0] == "un" and tt[1] == "not":
            tt, pos = tt[2], not pos
        if tt[0] == "cmp" and ((tt[1] == "!=" and pos) or (
                tt[1] == "==" and not pos)) and ("dict", (), ()) in (
                tt[2], tt[3]):
            return tt[3] if tt[2] == ("dict", (), ()) else tt[2]
        if not pos:
            tt = ("un", "not", tt)
        n = norm_cmp(tt, True)
        if n is not None:
            ln = [x for x in n[1:] if x[0] == "call"
                  and x[1] == "builtins.len" and len(x[2]) == 1]
            other = [x for x in n[1:] if x not in ln]
            if len(ln) == 1 and other in ([("const", 0)], [("const", 1)]):
                z = other[0][1]
                if (n[0] == "lt" and n[1] == ("const", 0) and z == 0) or (
                        n[0] == "le" and n[1] == ("const", 1)) or (
                        n[0] == "ne" and z == 0):
                    return ln[0][2][0]
            return None
        if tt[0] == "call" and tt[1] == "builtins.len" and len(tt[2]) == 1:
            return tt[2][0]
        if tt[0] in ("var", "phi", "comp", "call", "param", "rec",
                     "mutsub", "mut", "store"):
            return tt
        return None

    ne = nonempty_of(w.test)
    nb = bound_args(prog, Tn.of(c)) or {}
    cands = [x for x in (nb.get(gp[0]), nb.get(gp[1]), it_def, hd_def)
             if x is not None]
    ok_loop = ne is not None and (
        no_uids(ne) in [no_uids(x) for x in cands]
        or (root_name(ne) is not None and root_name(ne) in [
            root_name(x) for x in cands]))
    ctx.check(ok_loop, "C14a-loop-until-exhausted", f,
              "merge loops until no input iterator is left",
              f"loop condition is '{ast.unparse(w.test)}'", node=w)
    ctx.check(col == ("param", p_col), "C14a-merge-score-column", f,
              "merge compares on the caller's score column",
              f"get_next_row is called with {show(col, 60) if col else None}",
              node=c)
    # iterators: one per path; heads: one next() per iterator
    it0 = _before_loop(it_def)
    hd0 = _before_loop(hd_def)
    ok_it = one_to_one(it0) == ("param", p_paths)
    ctx.check(ok_it, "C14a-one-iterator-per-input", f,
              "one row iterator per input path",
              f"iterators are {show(it0, 120)}", node=c)
    base_h = one_to_one(hd0)
    nexts = [x for x in walk_term(hd0) if isinstance(x, tuple) and x
             and x[0] == "call" and x[1] == "builtins.next"
             and len(x[2]) == 1]
    ok_hd = base_h is not None and no_uids(base_h) in (
        no_uids(it0), ("param", p_paths)) and len(nexts) >= 1
    ctx.check(ok_hd, "C14a-one-head-per-iterator", f,
              "every iterator contributes its first row as head",
              f"heads are {show(hd0, 120)}", node=c)
    # every non-None row is yielded
    ys = [n for n in walk_own(w) if isinstance(n, ast.Yield)]
    ok_y = False
    ROW = ("call", "mokapot.utils.get_next_row")
    for y in ys:
        yd = Tn.of(y.value) if y.value is not None else ("x",)
        ok_y = yd[:2] == ROW
        wt_ = Tn.of(w.test)
        while wt_[0] == "un" and wt_[1] == "not":
            wt_ = wt_[2]
        for t_, o in cond_terms(cfg, Tn, y):
            if t_ == wt_:
                continue
            n = t_[0] == "cmp" and t_[1] in ("is", "is not") and \
                t_[2][:2] == ROW and t_[3] == ("const", None)
            if not (n and ((t_[1] == "is not") == bool(o))):
                ok_y = False
    ctx.check(ok_y and len(ys) == 1, "C14a-every-row-yielded", f,
              "every row handed back by get_next_row is yielded",
              f"yield statements: {[ast.unparse(y) for y in ys]} under "
              f"{[cfg.conditions(y) for y in ys]}", node=w)


def _before_loop(t):
    """the value a loop-carried container had before the merge loop
    started (the phi alternative that is not the loop-carried one)"""
    seen = 0
    while t[0] in ("phi", "var") and seen < 6:
        seen += 1
        if t[0] == "phi":
            alts = [a for a in t[1] if a[0] != "rec" and not any(
                isinstance(x, tuple) and x and x[0] == "rec"
                for x in walk_term(a))]
            if len(alts) != 1:
                return t
            t = alts[0]
        else:
            return t
    return t


def _row_iterator(ctx, f):
    loops = [n for n in ast.walk(f.node) if isinstance(n, ast.For)]
    ok = len(loops) == 1
    why = f"{len(loops)} loops"
    if ok:
        lp = loops[0]
        yf = [n for n in ast.walk(lp) if isinstance(n, ast.YieldFrom)]
        cfg = CFG(f.node)
        ok = len(yf) == 1 and not cfg.guards(yf[0]) or False
        if len(yf) == 1:
            guards = [g for g in cfg.guards(yf[0])]
            ok = not guards
            why = f"yield from is conditional on {guards}"
            # what is yielded is the full record list of the loop element
            prog = ctx.prog
            du = DefUse(prog, f)
            T = Terms(du)
            yt = T.of(yf[0].value)
            txt = tkey(yt, 200)
            full = (yt[0] == "mcall" and yt[2] in ("to_dict", "to_pylist")
                    and yt[1][0] == "elem")
            if yt[0] == "mcall" and yt[2] == "to_dict":
                full = full and dict(yt[4]).get("orient", yt[3][0] if yt[3]
                                                else None) == (
                    "const", "records")
            ok = ok and full
            if not full:
                why = f"yields {txt}, not every record of each chunk"
            brk = [n for n in ast.walk(lp)
                   if isinstance(n, (ast.Break, ast.Return))]
            if brk:
                ok = False
                why = "loop over the chunks can stop early"
    ctx.check(ok, "C14a-complete-traversal", f,
              "row iterator yields every record of every chunk", why,
              node=f.node)


def _complete_generator(fnode):
    """Does this generator hand on every element of every chunk of its
    (single) parameter?  Accepted shape, after canonicalisation:
        for chunk in <param>:  yield from <anything of chunk>
    or the nested-loop spelling with a plain ``yield row`` of the inner
    loop variable - without any branch, early exit or skipped element."""
    params = [a.arg for a in fnode.args.args]
    if len(params) != 1:
        return False
    if any(isinstance(n, (ast.Break, ast.Return, ast.If, ast.Continue,
                          ast.While, ast.Try, ast.IfExp))
           for n in ast.walk(fnode)):
        return False
    from ..astutil import live
    body = live(fnode.body, fnode)
    if len(body) != 1 or not isinstance(body[0], ast.For):
        return False
    outer = body[0]
    obody = live(outer.body, fnode)
    if not (isinstance(outer.iter, ast.Name) and outer.iter.id == params[0]
            and isinstance(outer.target, ast.Name) and not outer.orelse
            and len(obody) == 1):
        return False
    chunk = outer.target.id
    st = obody[0]

    def over_chunk(e):
        # the chunk itself, or one call with the chunk as its only argument
        if isinstance(e, ast.Name):
            return e.id == chunk
        return isinstance(e, ast.Call) and len(e.args) == 1 and \
            not e.keywords and isinstance(e.args[0], ast.Name) and \
            e.args[0].id == chunk
    if isinstance(st, ast.Expr) and isinstance(st.value, ast.YieldFrom):
        return over_chunk(st.value.value)
    if isinstance(st, ast.For) and not st.orelse and len(
            live(st.body, fnode)) == 1 and \
            isinstance(st.target, ast.Name) and over_chunk(st.iter):
        y = live(st.body, fnode)[0]
        return isinstance(y, ast.Expr) and isinstance(y.value, ast.Yield) \
            and isinstance(y.value.value, ast.Name) and \
            y.value.value.id == st.target.id
    return False


def _chunk_rows(ctx, f):
    """The helpers that turn one chunk into rows hand on every row of the
    chunk exactly once, in chunk order: rows are taken by *position*
    (``iloc`` over ``range(len(chunk))``) or by one of the whole-table
    conversions (``to_dict('records')``, ``to_records``, ``itertuples``).
    Selecting by index *label* (``loc``) yields a row once per occurrence of
    its label - a chunk whose index repeats a label is multiplied."""
    prog = ctx.prog
    judged = 0
    # the helpers in question are the ones the chunk generator calls with a
    # chunk (directly, or through a local name they were assigned to)
    named = set()
    for g0 in walk_own(f.node):
        if isinstance(g0, ast.FunctionDef) and g0 is not f.node and \
                _complete_generator(g0):
            for c in ast.walk(g0):
                if isinstance(c, ast.Call) and isinstance(c.func, ast.Name):
                    named.add(c.func.id)
    for a in walk_own(f.node):
        if isinstance(a, ast.Assign) and isinstance(a.value, ast.Name) and \
                any(isinstance(t_, ast.Name) and t_.id in named
                    for t_ in a.targets):
            named.add(a.value.id)
    for g in walk_own(f.node):
        if not isinstance(g, ast.FunctionDef) or g is f.node:
            continue
        params = [a.arg for a in g.args.args]
        if len(params) != 1 or _complete_generator(g):
            continue
        strict = g.name in named
        P = ("param", params[0])
        du = DefUse(prog, f, fnode=g)
        T = Terms(du, phi_vars=True)
        ys = [n for n in ast.walk(g) if isinstance(n, (ast.Yield,
                                                       ast.YieldFrom))]
        outs = [T.of(y.value) for y in ys if y.value is not None] or [
            t for _r, t in T.returns()]
        if not any(x == P for o in outs for x in walk_term(o)):
            continue
        if any(isinstance(n, (ast.If, ast.Break, ast.Continue, ast.While,
                              ast.Try, ast.IfExp)) for n in ast.walk(g)) \
                or len(outs) != 1:
            if not strict:
                continue
            raise AnalysisError(
                f"{f.qual}: chunk-to-rows helper '{g.name}' has branches or "
                "several results; rule C14b-chunk-rows needs re-reading")
        t = outs[0]
        while True:
            c = callee_of(t)
            if c and c[0] in ("builtins.iter", "builtins.list") and \
                    len(c[1]) == 1:
                t = c[1][0]
            elif t[0] == "mcall" and t[2] in ("reset_index", "copy"):
                t = t[1]
            else:
                break
        verdict = None
        if ys and t[0] == "sub" and t[1][0] == "attr" and t[1][1] == P:
            k = t[2]
            # a position that runs over all rows: range(len(chunk)) or
            # range(len(chunk.index)), also spelled with enumerate
            one = False
            for IDX in (("idx", P), ("idx", ("attr", P, "index"))):
                one = one or k == ("list", (IDX,)) or (
                    k[0] == "slice" and k[1] == IDX and lin(k[2]) == lin(
                        ("bin", "+", IDX, ("const", 1)))
                    and k[3] == ("const", None))
            if t[1][2] == "iloc" and one:
                verdict = True
            elif t[1][2] in ("loc", "at", "xs"):
                verdict = False
        elif not ys and t[0] == "mcall" and t[1] == P:
            kw = dict(t[4])
            if t[2] == "to_dict":
                o = kw.get("orient", t[3][0] if t[3] else None)
                verdict = o == ("const", "records")
            elif t[2] in ("to_records", "itertuples"):
                verdict = True
        if verdict is None and not strict:
            continue        # some other one-argument helper (a value getter)
        if verdict is None:
            raise AnalysisError(
                f"{f.qual}: chunk-to-rows helper '{g.name}' produces "
                f"{show(t, 100)}, a form rule C14b-chunk-rows does not read")
        judged += 1
        ctx.check(verdict, "C14b-chunk-rows-by-position", f,
                  f"'{g.name}' hands on every row of the chunk once, by "
                  "position or whole-table conversion",
                  f"'{g.name}' produces {show(outs[0], 120)}: rows are not "
                  "taken one per position (selection by index label returns "
                  "a row once per occurrence of its label; a non-records "
                  "conversion does not yield rows)", node=g)
    ctx.floor("C14b-chunk-row-helpers", judged, 3)


def _merged_entry_points(ctx):
    """read() and get_chunked_data_iterator() of the merged reader hand out
    rows only from get_row_iterator(): the merge order and the sortedness
    check live there, so a path that reads the inputs directly skips both."""
    prog = ctx.prog
    SELF = ("param", "self")
    for name in ("read", "get_chunked_data_iterator"):
        f = prog.func("mokapot.streaming.MergedTabularDataReader." + name)
        T = Terms(DefUse(prog, f))
        outs = []
        for n in walk_own(f.node):
            if isinstance(n, (ast.Return, ast.Yield)) and \
                    n.value is not None:
                outs.append((n, T.of(n.value)))
            elif isinstance(n, ast.YieldFrom):
                outs.append((n, T.of(n.value)))
        ctx.require(bool(outs), f"{f.qual}: hands out nothing")
        for n, t in outs:
            parts = list(walk_term(t))
            merged = any(isinstance(x, tuple) and x[:3] == (
                "mcall", SELF, "get_row_iterator") for x in parts)
            direct = any(isinstance(x, tuple) and x == (
                "attr", SELF, "readers") for x in parts)
            ctx.check(merged and not direct, "C14b-entry-points-merge", f,
                      f"{name}() hands out rows of the merged stream only",
                      f"line {n.lineno}: {show(t, 110)} "
                      + ("is read from the input readers directly"
                         if direct else "does not come from "
                         "get_row_iterator()")
                      + ": neither merged nor checked for sortedness",
                      node=n)


def _table_merger(ctx, f):
    """Merge loop of MergedTabularDataReader.get_row_iterator, read off
    reconstructed terms (IDX = selected index, ROWS / ITERS / VALS = the
    three parallel lists, identified by how they are used)."""
    prog = ctx.prog
    du = DefUse(prog, f)
    T = Terms(du, phi_vars=True)
    cfg = CFG(f.node)
    whiles = [n for n in ast.walk(f.node) if isinstance(n, ast.While)]
    ctx.require(len(whiles) == 1, f"{f.qual}: merge loop not found")
    w = whiles[0]
    FLAG = ("attr", ("param", "self"), "descending")
    ys = [n for n in ast.walk(w) if isinstance(n, ast.Yield)]
    ctx.require(len(ys) == 1, f"{f.qual}: expected one yield in the loop")
    y = ys[0]
    yt = T.of(y.value)
    base = yt[1] if yt[0] == "sub" else ("unknown", "")
    while base[0] in ("store", "mut"):
        base = base[1]
    ctx.require(yt[0] == "sub" and base[0] == "var",
                f"{f.qual}: the merge does not yield an element of a list: "
                + show(yt, 100))
    ROWS = base[1]
    IDX = yt[2]

    def is_list(t, name):
        return t[0] == "var" and t[1] == name

    # ---- selection: argmax iff descending (per direction)
    sel = {}
    for v in path_variants(f.node, within=w):
        vdu = DefUse(prog, f, fnode=v.fnode)
        vT = Terms(vdu, phi_vars=True)
        vw = [n for n in walk_own(v.fnode) if isinstance(n, ast.While)]
        vy = [n for x in vw for n in ast.walk(x) if isinstance(n, ast.Yield)]
        ctx.require(len(vy) == 1, f"{f.qual}: yield lost in a variant")
        it = vT.of(vy[0].value)
        ctx.require(it[0] == "sub", f"{f.qual}: yield changed in a variant")
        it = it[2]
        dirs = []
        for test, outcome in v.conds:
            t = vT.of(test)
            while t[0] == "un" and t[1] == "not":
                t, outcome = t[2], not outcome
            if t == FLAG:
                dirs.append(outcome)
        for val in (dirs[:1] or [True, False]):
            c = callee_of(select_ifexp(it, FLAG, val))
            got = (c[0], c[1][0][:2] if c[1] else None) if c else (
                show(it, 60), None)
            prev = sel.get(val, got)
            if prev != got and prev[0] == got[0] and None not in (
                    prev[1], got[1]) and (prev[1][0] == "var") != (
                        got[1][0] == "var"):
                # a path that leaves the loop sees the list's initial
                # value where the others see the loop-carried variable
                got = prev if prev[1][0] == "var" else got
                sel[val] = got
            ctx.require(sel.get(val, got) == got,
                        f"{f.qual}: two selections for one direction: {sel.get(val)} / {got}")
            sel[val] = got
    ok = (sel.get(True, (None,))[0] == "numpy.argmax"
          and sel.get(False, (None,))[0] == "numpy.argmin"
          and sel[True][1] == sel[False][1] and sel[True][1] is not None
          and sel[True][1][0] == "var")
    ctx.check(ok, "C14b-argmax-iff-descending", f,
              "descending merge picks the largest head, ascending the "
              "smallest",
              f"descending -> {sel.get(True)}, ascending -> {sel.get(False)}",
              node=y)
    if not ok:
        return
    VALS = sel[True][1][1]
    # ---- stores at IDX inside the loop
    stores = []
    for n in ast.walk(w):
        if isinstance(n, ast.Assign) and len(n.targets) == 1 and isinstance(
                n.targets[0], ast.Subscript) and isinstance(
                    n.targets[0].value, ast.Name):
            stores.append((n, T.of(n.targets[0].value), T.of(
                n.targets[0].slice), simp(T.of(n.value))))
    adv = [x for x in stores if is_list(x[1], ROWS)]
    ITERS = None
    ok_adv = False
    new_row = None
    if len(adv) == 1 and adv[0][2] == IDX:
        c = callee_of(adv[0][3])
        if c and c[0] == "builtins.next" and len(c[1]) == 1 and \
                c[1][0][0] == "sub" and c[1][0][1][0] == "var" and \
                c[1][0][2] == IDX:
            ITERS = c[1][0][1][1]
            new_row = adv[0][3]
            ok_adv = ITERS not in (ROWS, VALS)
    ctx.check(ok_adv, "C14b-advance-selected-only", f,
              "only the selected reader advances, into the selected slot",
              "stores into the row list: "
              + str([ast.unparse(x[0])[:80] for x in adv]),
              node=adv[0][0] if adv else w)
    if not ok_adv:
        return
    adv_stmt = adv[0][0]
    # the statement that calls next(): the store itself or a temporary
    next_stmts = [s for s in ast.walk(w) if isinstance(s, ast.Assign)
                  and isinstance(s.value, ast.Call)
                  and ast.unparse(s.value.func) == "next"]
    ctx.require(len(next_stmts) == 1, f"{f.qual}: expected one next() call")
    next_stmt = next_stmts[0]
    tr = cfg.enclosing(next_stmt, (ast.Try,))
    ctx.require(tr is not None, f"{f.qual}: advance try not found")
    # ---- yield precedes advance
    yn = cfg.node_of(cfg.stmt_of(y) if hasattr(cfg, "stmt_of") else y).id
    ok_y = cfg.every_path_passes(cfg.node_of(w).id,
                                 cfg.node_of(adv_stmt).id, {yn}) and \
        cfg.every_path_passes(cfg.node_of(w).id,
                              cfg.node_of(next_stmt).id, {yn})
    ctx.check(ok_y, "C14b-yield-before-advance", f,
              "the selected row is yielded before its reader advances",
              f"yields {show(yt, 80)}", node=y)
    # ---- sortedness check: truth table over direction x (new ? old)
    upd = [x for x in stores if is_list(x[1], VALS)]
    NEW = upd[0][3] if len(upd) == 1 else None
    OLD = ("sub", None, IDX)

    def atoms_for(desc, new, old, n_left=2):
        def atoms(t):
            if t == FLAG:
                return desc
            if t[0] == "call" and t[1] == "builtins.len" and len(
                    t[2]) == 1 and t[2][0][0] == "var" and t[2][0][1] in (
                        ITERS, ROWS, VALS):
                return n_left
            if NEW is not None and simp(t) == NEW:
                return new
            if t[0] == "sub" and t[1][0] == "var" and t[1][1] == VALS and \
                    t[2] == IDX:
                return old
            raise KeyError(t)
        return atoms

    raises = [n for n in ast.walk(w) if isinstance(n, ast.Raise)
              and n.exc is not None and not any(
                  isinstance(h, ast.ExceptHandler) and any(
                      x is n for x in ast.walk(h))
                  for h in ast.walk(w))]
    from ..paths import var_leaves as _vl
    from ..tutil import map_term as _mt

    def _through_flags(t):
        # a flag that holds the comparison (out_of_order = a > b; if
        # out_of_order: raise) is the comparison
        depth = [0]

        def one(x):
            if x[0] == "var" and depth[0] < 4:
                lv = _vl(du, T, x)
                if len(lv) == 1 and lv[0][0] in ("cmp", "bool", "un",
                                                 "ifexp"):
                    depth[0] += 1
                    try:
                        return _mt(lv[0], one)
                    finally:
                        depth[0] -= 1
            return x
        return _mt(t, one)
    rconds = []
    for r in raises:
        rconds.append([(simp(_through_flags(T.of(t))), o)
                       for t, o in cfg.necessary_conditions(r)
                       if inside(t, w) and t is not w.test])
    table, bad = [], []
    ok_s = bool(rconds) and NEW is not None
    if ok_s:
        try:
            for desc in (True, False):
                for new in (0, 1, 2):
                    for n_left in (1, 2, 3):
                        at = atoms_for(desc, new, 1, n_left)
                        rej = any(all(bool(tt_eval(t, at)) == o
                                      for t, o in cs) for cs in rconds)
                        want = (desc and new > 1) or (not desc and new < 1)
                        table.append((desc, new, 1, rej))
                        if rej != want:
                            bad.append({"descending": desc, "new": new,
                                        "old": 1, "readers left": n_left,
                                        "rejected": rej})
        except (TTUnknown, KeyError) as e:
            ok_s = False
            raise AnalysisError(
                f"{f.qual}: a sortedness guard is outside the evaluated "
                f"fragment: {str(e)[:80]}")
    ctx.check(ok_s and not bad, "C14b-sortedness-check", f,
              "an input that is not sorted as declared is rejected (raise "
              "when a new head exceeds the previous one in descending mode, "
              "falls below it in ascending mode, however many readers are left; 18 valuations)",
              f"sortedness guards deviate: {bad[:3]}", node=tr)
    # ---- the stored value is the new head's value and is refreshed on
    # every normal path back to the loop head
    ok_u = False
    why = f"stores into {VALS}: {[ast.unparse(x[0])[:80] for x in upd]}"
    if len(upd) == 1 and upd[0][2] == IDX:
        c = upd[0][3]
        gv = c[2] if c[0] in ("callv", "call") else None
        ok_u = bool(gv) and gv[0] == new_row
        if ok_u:
            hs = {cfg.node_of(h.body[0]).id for h in tr.handlers}
            ok_u = cfg.every_path_passes(
                cfg.node_of(adv_stmt).id, cfg.node_of(w).id,
                {cfg.node_of(upd[0][0]).id} | hs)
            if not ok_u:
                why = "a path reaches the next iteration without " \
                      "refreshing the comparison value"
    ctx.check(ok_u, "C14b-value-updated", f,
              "the comparison value of the advanced reader is refreshed "
              "from the new head", why, node=tr)
    # ---- exhaustion deletes the three parallel lists at the same index
    ok_del = False
    dels = []
    all_evs = container_events(f.node, T, cfg)
    for h in tr.handlers:
        if h.type is not None and "StopIteration" in ast.unparse(h.type):
            for e in all_evs:
                if not inside(e.node, h):
                    continue
                # del xs[i]  /  xs.pop(i): the element at that index leaves
                if e.kind == "del":
                    dels.append((("var", root_name(e.recv)), e.key))
                elif e.kind == "pop" and len(e.args) == 1:
                    dels.append((("var", root_name(e.recv)), e.args[0]))
            # xs = np.delete(xs, i): the same removal for an array
            for d in du.defs:
                if d.kind == "assign" and d.node is not None and inside(
                        d.node, h) and d.name in (ITERS, ROWS, VALS):
                    t_ = T.of_def(d)
                    if t_[0] == "call" and t_[1] == "numpy.delete" and \
                            len(t_[2]) == 2 and t_[2][0][0] == "var" and \
                            t_[2][0][1] == d.name:
                        dels.append((("var", d.name), t_[2][1]))
            ok_del = sorted(d[0][1] for d in dels if d[0][1]) == \
                sorted([ITERS, ROWS, VALS]) and all(
                    d[1] == IDX for d in dels) and len(dels) == 3
    ctx.check(ok_del, "C14b-exhaustion-deletes-all", f,
              "an exhausted reader is removed from the iterator, row and "
              "value lists at the same index",
              f"handler deletes {[d[0] for d in dels]}", node=tr)
    # ---- loop until no reader is left
    wt = T.of(w.test)
    c = callee_of(wt)
    inner = c[1][0] if c and c[0] == "builtins.len" and c[1] else wt
    if wt[0] == "cmp" and wt[1] in (">", "!=") and wt[3] == ("const", 0):
        c2 = callee_of(wt[2])
        inner = c2[1][0] if c2 and c2[0] == "builtins.len" else wt[2]
    ok_w = inner[0] == "var" and inner[1] in (ITERS, ROWS, VALS)
    ctx.check(ok_w, "C14b-loop-until-exhausted", f,
              "merge loops until no reader is left",
              f"loop condition is '{ast.unparse(w.test)}'", node=w)
    # the current scores are kept as they were read: a typed array fixes
    # its dtype from the first heads, and a later head stored into it is
    # coerced (a fractional score into an int64 array loses its fraction,
    # so the selection and the sortedness test use a different value)
    vinit = [T.of_def(d) for d in du.defs if d.name == VALS
             and d.kind == "assign" and d.node is not None
             and not inside(d.node, w)]
    typed = [t_ for t_ in vinit if t_[0] == "call" and t_[1] in (
        "numpy.array", "numpy.asarray", "numpy.fromiter", "numpy.empty",
        "numpy.zeros", "array.array")]
    ctx.check(bool(vinit) and not typed, "C14b-values-untyped", f,
              "the comparison values are kept in a list (no dtype coercion "
              "when a new head is stored)",
              f"the values are initialised as {[show(t_, 80) for t_ in typed]}"
              ": storing a later head coerces it to the array's dtype",
              node=w)
    # row iterators traverse every chunk completely
    # where does each reader's row stream come from?
    inits = [T.of_def(d) for d in du.defs if d.name == ITERS
             and d.kind == "assign"]
    ctx.require(len(inits) == 1 and inits[0][0] == "comp" and len(
        inits[0][3]) == 1 and not inits[0][3][0][2],
        f"{f.qual}: list of per-reader row streams not recognised")
    src = inits[0][2]
    ok_n = False
    where = f.node
    why = f"row stream of a reader is {show(src, 120)}"

    def complete_gen(t):
        """(row for chunk in CHUNKS for row in g(chunk)) without filters"""
        return t[0] == "comp" and t[1] == "gen" and len(t[3]) == 2 and \
            not t[3][0][2] and not t[3][1][2] and t[2][0] == "elem"

    if src[0] == "call" and src[1] in ctx.prog.funcs:
        nested = ctx.prog.funcs[src[1]]
        where = nested.node
        if any(isinstance(n, (ast.Yield, ast.YieldFrom))
               for n in ast.walk(nested.node)):
            ok_n = _complete_generator(nested.node)
        else:
            rs = Terms(DefUse(ctx.prog, nested)).returns()
            ok_n = len(rs) == 1 and complete_gen(rs[0][1])
    elif complete_gen(src):
        ok_n = True
    ctx.check(ok_n, "C14b-complete-traversal", f,
              "every row of every chunk of every reader is offered to the "
              "merge", "nested chunk/row loops are not complete: " + why,
              node=where)
