"""C17 - in-silico digestion returns exactly the peptides the rules allow."""

from __future__ import annotations

import ast
import itertools

from ..cfg import CFG
from ..astutil import inside
from ..core import callee_is, AnalysisError, const_value, walk_own
from ..tutil import EvUnknown, ev_term, lin, map_term, seq_parts, simp
from ..defuse import DefUse, Terms, show, walk_term
from ..defuse import key as tkey
from ..memo import check_no_cross_call_state

EXPLANATION = (
    "Static analysis of parsers.fasta.digest / _cleavage_sites / _cleave. "
    "(a) provenance: every value added to the result is a step-less slice "
    "of the sequence, or of the one enzymatic peptide sequence[start:end] "
    "whose single definition reaches the clipping and semi-enzymatic code. "
    "(b) bounds: sites are [0] + every match end of the enzyme over the "
    "whole sequence + [len]; the missed-cleavage loop spans site gaps "
    "1..mc+1 from every start site; the end index is start + gap and is "
    "range-checked; guards are evaluated over representative lengths: a "
    "peptide is kept iff min <= len <= max, the clipped form is added iff "
    "clipping is on, the peptide starts at site 0 with 'M' and its clipped "
    "length >= min, semi adds prefix and suffix of equal length for every "
    "cut 1..len-1 within the length bounds. (c) monotone: results are only "
    "ever added, options are routed from digest() to the matching "
    "parameters, every return of digest() is the _cleave result (no "
    "shortcut), and nothing is cached across calls. Also: the semi-enzymatic scan is judged by the index ranges it adds (loop followed value by value for five peptide lengths and four (min, max) pairs); the enzyme pattern is used as given. "
    "NOT decided: regex "
    "semantics of look-ahead patterns beyond 'the whole sequence is "
    "searched'.")
TECHNIQUE = ("def-use provenance + guard truth tables over representative "
             "lengths + option routing + cross-call state scan")

FA = "mokapot.parsers.fasta."


def run(ctx):
    from .common import READ_FASTA, FASTA_DIGEST_OPTIONS, cli_routing
    cli_routing(ctx, "C17c-cli-digest-options", READ_FASTA, FASTA_DIGEST_OPTIONS,
                "the digestion")
    prog = ctx.prog
    _sites(ctx, prog.func(FA + "_cleavage_sites"))
    _cleave(ctx, prog.func(FA + "_cleave"))
    _digest(ctx, prog.func(FA + "digest"))
    check_no_cross_call_state(
        ctx, "C17c-no-cross-call-state",
        [prog.func(FA + n) for n in ("digest", "_cleave",
                                     "_cleavage_sites")], "digest")


def _sites(ctx, f):
    prog = ctx.prog
    du = DefUse(prog, f)
    T = Terms(du)
    rets = T.returns()
    ctx.require(len(rets) == 1, f"{f.qual}: expected one return")
    rnode, t = rets[0]
    p_seq = f.params[0]
    parts = seq_parts(t)
    if parts is None:
        raise AnalysisError(
            f"{f.qual}: the list of sites is built in a form rule C17b "
            f"does not read: {show(t, 120)}")
    ok = parts is not None and len(parts) == 3
    why = show(t, 200)
    if ok:
        first, mid, last = parts
        ok_first = first == ("item", ("const", 0))
        ok_last = last == ("item", ("call", "builtins.len",
                                    (("param", p_seq),), ()))
        ok_mid = False
        if mid[0] == "each":
            elt, it0 = mid[1], mid[2]
            it = it0
            # the same call on either of two pattern objects is one call on
            # "either pattern"; re.finditer(P, s) is P.finditer(s)
            if it[0] == "phi" and it[1] and all(
                    y[0] == "mcall" and y[2:] == it[1][0][2:]
                    for y in it[1]):
                it = ("mcall", ("phi", tuple(y[1] for y in it[1])),
                      ) + tuple(it[1][0][2:])
            elif it[0] == "call" and it[1] == "re.finditer" and \
                    len(it[2]) == 2 and not it[3]:
                it = ("mcall", it[2][0], "finditer", (it[2][1],), ())
            if not (it[0] == "mcall" and it[2] in ("finditer",)):
                raise AnalysisError(
                    f"{f.qual}: the cleavage sites are searched with "
                    f"{show(it, 100)}, a form rule C17b does not read")
            elt = map_term(elt, lambda x: ("elem", it)
                           if x == ("elem", it0) else x)
            whole = (it[0] == "mcall" and it[2] == "finditer"
                     and it[3] == (("param", p_seq),) and not it[4])
            ends = elt[0] == "mcall" and elt[2] == "end" and not elt[3] \
                and elt[1] == ("elem", it)
            ok_mid = whole and ends
            # the pattern object: the caller's compiled regex as it is, or
            # re.compile(the caller's string) - nothing rebuilt from parts
            # of it (a pattern text re-compiled without its flags)
            p_enz = f.params[1] if len(f.params) > 1 else None
            recv = it[1] if it[0] == "mcall" else None
            alts = []

            def phi_alts(x):
                if x[0] == "phi":
                    for y in x[1]:
                        phi_alts(y)
                elif x[0] == "ifexp":
                    phi_alts(x[2])
                    phi_alts(x[3])
                else:
                    alts.append(x)
            if recv is not None and p_enz is not None:
                phi_alts(recv)
                P_E = ("param", p_enz)
                given = all(a == P_E or (
                    a[0] == "call" and a[1] == "re.compile"
                    and a[2][:1] == (P_E,)) for a in alts)
                ctx.check(given, "C17b-enzyme-as-given", f,
                          "the sites are found with the caller's pattern "
                          "(compiled only when it is a string)",
                          f"the pattern object is {show(recv, 120)}: a "
                          "compiled regex is not used as given, so options "
                          "it carries (flags) no longer apply and the "
                          "peptides are cut at other sites", node=rnode)
            if not whole:
                why = (f"matches are searched with {show(it, 100)}: the "
                       "enzyme pattern must see the whole sequence "
                       "(look-ahead at the end, matches at the last "
                       "residue)")
            elif not ends:
                why = f"site is {show(elt, 60)}, not the match end"
        ok = ok_first and ok_last and ok_mid
    ctx.check(ok, "C17b-sites", f,
              "sites = [0] + [end of every enzyme match in the whole "
              "sequence] + [len(sequence)]", why, node=rnode)


class _Len:
    """evaluate guards with len(peptide) etc. as symbols"""

    def __init__(self, env):
        self.env = env

    def ev(self, e):
        if isinstance(e, ast.Constant):
            return e.value
        if isinstance(e, ast.Name):
            if e.id not in self.env:
                raise AnalysisError(f"guard uses unknown name {e.id}")
            return self.env[e.id]
        if isinstance(e, ast.UnaryOp) and isinstance(e.op, ast.Not):
            return not self.ev(e.operand)
        if isinstance(e, ast.BoolOp):
            vals = [self.ev(v) for v in e.values]
            return all(vals) if isinstance(e.op, ast.And) else any(vals)
        if isinstance(e, ast.BinOp):
            a, b = self.ev(e.left), self.ev(e.right)
            return {ast.Add: a + b, ast.Sub: a - b}[type(e.op)]
        if isinstance(e, ast.Call):
            key = ast.unparse(e)
            if key in self.env:
                return self.env[key]
            raise AnalysisError(f"guard uses unknown call {key}")
        if isinstance(e, ast.Compare) and len(e.ops) == 1:
            a, b = self.ev(e.left), self.ev(e.comparators[0])
            return {ast.Lt: a < b, ast.LtE: a <= b, ast.Gt: a > b,
                    ast.GtE: a >= b, ast.Eq: a == b,
                    ast.NotEq: a != b}[type(e.ops[0])]
        raise AnalysisError(f"guard outside fragment: {ast.unparse(e)}")


def _cleave(ctx, f):
    """Sink-driven: every value that is added to the result set, with the
    conditions (decided in the loops) under which the addition runs."""
    prog = ctx.prog
    du = DefUse(prog, f)
    T = Terms(du, phi_vars=True)
    cfg = CFG(f.node)
    (p_seq, p_sites, p_mc, p_min, p_max, p_semi, p_clip) = f.params
    P = {n: ("param", n) for n in f.params}
    SITES = P[p_sites]
    loops = [n for n in walk_own(f.node) if isinstance(n, ast.For)]
    LEN_SITES = ("call", "builtins.len", (SITES,), ())
    outer = [n for n in loops if T.of(n.iter) in (
        ("call", "builtins.enumerate", (SITES,), ()),
        ("call", "builtins.range", (LEN_SITES,), ()))]
    ctx.check(len(outer) == 1 and cfg.enclosing(outer[0], (ast.For,))
              is None if outer else False, "C17b-every-start-site", f,
              "every site is tried as a peptide start",
              f"loops iterate {[ast.unparse(n.iter) for n in loops]}",
              node=f.node)
    if len(outer) != 1:
        return
    ol = outer[0]
    S_IDX, S_SITE = ("idx", SITES), ("elem", SITES)

    def gap_loop(n):
        """Is ``n`` a loop over the end positions  start+1 .. start+mc+1 ?
        Accepted: a range(lo, hi) with hi - lo == mc + 1 whose element e
        gives the end index  e + c  (c may contain the start index) such
        that the smallest end index is start + 1."""
        t = T.of(n.iter)
        if not (t[0] == "call" and t[1] == "builtins.range"
                and len(t[2]) == 2):
            return False
        width = lin(t[2][1]) + lin(t[2][0]).scale(-1) + lin(
            P[p_mc]).scale(-1)
        return width.const == 1 and not width.atoms

    inner = [n for n in loops if inside(n, ol) and n is not ol
             and cfg.enclosing(n, (ast.For, ast.While)) is ol
             and gap_loop(n)]
    ctx.check(len(inner) == 1, "C17b-gap-range", f,
              "site gaps 1 .. missed_cleavages + 1 are tried",
              "gap loops: " + str([ast.unparse(n.iter) for n in loops
                                   if inside(n, ol) and n is not ol])
              + f" (expected a range of {p_mc} + 1 consecutive end "
              "positions)", node=ol)
    if len(inner) != 1:
        return
    il = inner[0]
    GAP = ("elem", T.of(il.iter))
    GAP_LO = T.of(il.iter)[2][0]
    # everything added to the result
    rets = [t for _r, t in T.returns()]
    ok = len(rets) == 1 and rets[0][0] == "var"
    ctx.check(ok, "C17c-returns-result-set", f,
              "the accumulated set is returned",
              f"{[show(r, 80) for r in rets]}", node=f.node)
    if not ok:
        return
    RES = rets[0][1]
    removes = [n for n in ast.walk(f.node) if isinstance(n, ast.Call)
               and isinstance(n.func, ast.Attribute)
               and n.func.attr in ("remove", "discard", "difference",
                                   "difference_update", "pop", "clear",
                                   "intersection", "intersection_update",
                                   "symmetric_difference")]
    ctx.check(not removes, "C17c-only-added", f,
              "peptides are only ever added to the result",
              f"result is reduced by {[ast.unparse(r)[:40] for r in removes]}",
              node=f.node)
    added = []      # (node, value term)
    from ..events import accumulations
    for n, e in accumulations(f.node, T, RES):
        if not inside(n, ol):
            continue
        ctx.require(e[0] != "*", f"{f.qual}: the result grows by something "
                    f"that is not a display: {show(e, 80)}")
        added.append((n, e))
    ctx.floor("C17a-added-values", len(added), 4)

    def slice_base(t):
        """the term a chain of step-less slices is cut from"""
        while t[0] == "sub" and t[2][0] == "slice" and \
                t[2][3] == ("const", None):
            t = t[1]
        return t

    # the enzymatic peptide: the added value that is a direct slice of the
    # sequence
    peps = {slice_base(v) for _n, v in added}
    direct = [v for _n, v in added if v[0] == "sub" and v[1] == P[p_seq]]
    PEP = direct[0] if len(set(direct)) == 1 else None
    ok_pep = False
    why = f"values added: {[show(v, 80) for _n, v in added]}"
    if PEP is not None and PEP[2][0] == "slice":
        lo, hi, st = PEP[2][1:]
        if hi[0] == "sub" and hi[1] == SITES:
            # end index = gap element + c, smallest value start index + 1
            d = lin(hi[2]) + lin(GAP).scale(-1) + lin(GAP_LO) + lin(
                S_IDX).scale(-1)
            ok_pep = lo == S_SITE and st == ("const", None) and \
                d.const == 1 and not d.atoms
            END_IDX = hi[2]
        why = f"the enzymatic peptide is {show(PEP, 160)}"
    ctx.check(ok_pep, "C17a-peptide-is-site-to-site-slice", f,
              "the enzymatic peptide is sequence[start_site:sites[start "
              "index + gap]]", why, node=il)
    if not ok_pep:
        return
    ctx.check(True, "C17b-end-index", f, "end index = start index + gap", "")
    for node, v in added:
        ok_v = slice_base(v) == P[p_seq] and (
            v == PEP or (v[0] == "sub" and slice_base(v[1]) == P[p_seq]
                         and _through(v, PEP)))
        ctx.check(ok_v, "C17a-substring-provenance", f,
                  f"added value {show(v, 60)} is a contiguous slice of "
                  "the enzymatic peptide",
                  f"{show(v, 120)} is not a step-less slice of the "
                  f"enzymatic peptide {show(PEP, 80)}", node=node)
    ctx.check(all(_through(v, PEP) for _n, v in added),
              "C17a-peptide-single-definition", f,
              "the clipped and semi-enzymatic forms are cut from the same "
              "string as the enzymatic peptide",
              "a later form is cut from a different string than the "
              "enzymatic peptide", node=il)
    # ---- conditions, evaluated over representative valuations
    LEN_PEP = ("call", "builtins.len", (PEP,), ())
    CLIPPED = ("sub", PEP, ("slice", ("const", 1), ("const", None),
                            ("const", None)))
    semi_loops = [n for n in loops if inside(n, il) and n is not il]
    CUT = None
    if len(semi_loops) == 1:
        CUT = ("elem", T.of(semi_loops[0].iter))

    # conditions that look at what was found so far: a membership test on
    # the result that only protects the addition of that very value changes
    # nothing; any other dependence on the history makes the forms derived
    # from a peptide depend on which peptides happened to come first
    history = []
    result_names = {RES}

    def reads_result(t):
        return any(isinstance(x, tuple) and len(x) >= 2
                   and x[0] in ("var", "rec") and x[1] in result_names
                   for x in walk_term(t))

    def conds(node, value=None):
        out = []
        for t, o in cfg.necessary_conditions(node):
            if not inside(t, il):
                continue
            tt = simp(T.of(t))
            if reads_result(tt):
                same = tt[0] == "cmp" and tt[1] in ("in", "not in") and \
                    value is not None and tt[2] == value and \
                    (tt[1] == "not in") == bool(o)
                if not same:
                    history.append((node, tt, o))
                continue
            out.append((tt, o))
        return out

    def atoms_for(v):
        def atoms(t):
            if t == LEN_PEP:
                return v["L"]
            if t == ("call", "builtins.len", (CLIPPED,), ()):
                return v["L"] - 1
            if t[0] == "param":
                return {p_min: 5, p_max: 9, p_clip: v.get("clip"),
                        p_semi: v.get("semi")}[t[1]]
            if t == S_IDX:
                return v["sidx"]
            if t == ("call", "builtins.len", (SITES,), ()):
                return 10
            if t == END_IDX:
                return v["end"]
            if t == ("mcall", PEP, "startswith", (("const", "M"),), ()):
                return v["M"]
            if CUT is not None and t == CUT:
                return v["cut"]
            raise KeyError(t)
        return atoms

    def reached(cs, v):
        at = atoms_for(v)
        return all(bool(ev_term(t, at)) == o for t, o in cs)

    main = [(n, conds(n, v)) for n, v in added if v == PEP]
    clip = [(n, conds(n, v)) for n, v in added if v == CLIPPED]
    bad_rc, bad_len = [], []
    try:
        ok_main = len(main) == 1
        if ok_main:
            for end, L in itertools.product((9, 10, 11), (4, 5, 7, 9, 10)):
                v = {"L": L, "end": end, "sidx": 1, "clip": False,
                     "semi": False, "M": False, "cut": 1}
                got = reached(main[0][1], v)
                if got and end >= 10:
                    bad_rc.append((end, L))
                if end < 10 and got != (5 <= L <= 9):
                    bad_len.append((L, got))
        ctx.check(ok_main and not bad_rc, "C17b-end-index-range-check", f,
                  "gaps that run past the last site are skipped",
                  "a peptide is added although its end index is past the "
                  f"last site: (end index, len) = {bad_rc[:3]} with 10 "
                  "sites", node=il)
        ctx.check(ok_main and not bad_len, "C17b-length-filter", f,
                  "a peptide is kept iff min_length <= len <= max_length",
                  f"deviates for (len, added) = {bad_len} with min=5, "
                  "max=9", node=il)
        ctx.check(ok_main and not bad_len, "C17b-peptide-always-added", f,
                  "a peptide that passes the filters is always added",
                  "the enzymatic peptide is added conditionally", node=il)
        # early exits of the gap loop must be justified by the range check
        bad_brk = []
        for n in ast.walk(il):
            if isinstance(n, (ast.Break, ast.Return)) and not any(
                    inside(n, s_) for s_ in semi_loops):
                cs = conds(n)
                for end in (8, 9):
                    for L in (4, 7, 10):
                        v = {"L": L, "end": end, "sidx": 1, "clip": True,
                             "semi": True, "M": True, "cut": 1}
                        if reached(cs, v):
                            bad_brk.append((end, L))
        ctx.check(not bad_brk, "C17b-gap-range", f,
                  "the gap loop only stops early when the end index is "
                  "past the last site",
                  "the gap loop is left although larger gaps still fit: "
                  f"(end index, len) = {bad_brk[:3]} with 10 sites",
                  node=il)
        # clipping
        ctx.require(len(clip) == 1, f"{f.qual}: clipped form not found")
        bad = []
        for flag, sidx, m, L in itertools.product(
                (True, False), (0, 1), (True, False), (5, 6, 7)):
            v = {"L": L, "end": 5, "sidx": sidx, "clip": flag,
                 "semi": False, "M": m, "cut": 1}
            got = reached(clip[0][1], v)
            want = flag and sidx == 0 and m and (L - 1) >= 5
            if got != want:
                bad.append({"clip": flag, "start_idx": sidx, "M": m,
                            "len": L, "added": got})
        ctx.check(not bad, "C17b-clip-condition", f,
                  "clipped form added iff clipping is on, the peptide "
                  "starts the protein, begins with M and the clipped "
                  "length >= min_length (24 valuations)",
                  f"deviates for {bad[:3]}", node=clip[0][0])
        # semi
        ctx.require(len(semi_loops) == 1, f"{f.qual}: semi loop not found")
        sl = semi_loops[0]
        semi_adds = [(n, v) for n, v in added if inside(n, sl)]
        loop_conds = conds(sl)
        bad = []
        for flag in (True, False):
            v = {"L": 7, "end": 5, "sidx": 1, "clip": False, "semi": flag,
                 "M": False, "cut": 1}
            if reached(loop_conds, v) != flag:
                bad.append(flag)
        # The semi scan is judged by what it adds, not by how it counts:
        # for a peptide of L residues (as index range 0..L) the loop is
        # followed value by value of its own iterable - tests decided under
        # that value, a break honoured - and every added slice is reduced
        # to the index range it denotes.  Any loop variable (cut position,
        # fragment length, counting up or down) gives the same sets.
        from ..chunks import Unknown as _CU, ev as _cev
        for n_, v_ in semi_adds:
            conds(n_, v_)       # records history-dependent guards
        hdr = cfg.node_of(sl).id
        first = cfg.node_of(sl.body[0]).id
        brk = {cfg.node_of(x).id for x in ast.walk(sl)
               if isinstance(x, (ast.Break, ast.Return))}
        add_nodes = [(cfg.node_of(cfg.stmt_of(n_)).id, v_)
                     for n_, v_ in semi_adds]
        it_term = T.of(sl.iter)

        def run_semi(L, mn, mx, honour_break):
            def base_atoms(t):
                if t == LEN_PEP:
                    return L
                if t[0] == "param" and t[1] in (p_min, p_max, p_semi,
                                                p_clip):
                    return {p_min: mn, p_max: mx, p_semi: True,
                            p_clip: False}[t[1]]
                raise KeyError(t)
            seq = list(_cev(it_term, base_atoms))
            got, pairs = set(), []
            for x in seq:
                def at(t, x=x):
                    if t == CUT:
                        return x
                    return base_atoms(t)

                def decide(test):
                    tt = simp(T.of(test))
                    if reads_result(tt):
                        return None
                    return bool(_cev(tt, at))
                vis = cfg.visited_under(first, decide, stop={hdr} | brk)
                here = set()
                for nid, v_ in add_nodes:
                    if nid not in vis:
                        continue
                    if not (v_[0] == "sub" and v_[1] == PEP
                            and v_[2][0] == "slice"):
                        raise _CU("added value is not a slice of the "
                                  "peptide")
                    sl_ = _cev(v_[2], at)
                    r = range(L)[sl_]
                    if sl_.step not in (None, 1):
                        raise _CU("stepped slice")
                    here.add((r.start, r.stop) if len(r) else (0, 0))
                got |= here
                pairs.append((x, here))
                if honour_break and (brk & vis):
                    break
            return got, pairs

        def want(L, mn, mx):
            out = set()
            for k in range(1, L):
                if mn <= k <= mx:
                    out |= {(L - k, L), (0, k)}
            return out

        bad_cuts, bad_pair, bad_len, bad_brk = [], [], [], []
        for L in (2, 6, 7, 9, 12):
            g, pairs = run_semi(L, 1, 1000, False)
            if g != want(L, 1, 1000):
                bad_cuts.append((L, sorted(want(L, 1, 1000) - g)[:3],
                                 sorted(g - want(L, 1, 1000))[:3]))
            for x, here in pairs:
                ks = {(e - s_) for s_, e in here}
                if len(here) != 2 or len(ks) != 1 or not any(
                        s_ == 0 for s_, _e in here) or not any(
                        e == L for _s, e in here):
                    bad_pair.append((L, x, sorted(here)))
            for mn, mx in ((5, 9), (3, 4), (1, 2), (6, 6)):
                g_nb, _p = run_semi(L, mn, mx, False)
                g_b, _p = run_semi(L, mn, mx, True)
                if g_nb != want(L, mn, mx):
                    bad_len.append((L, mn, mx,
                                    sorted(want(L, mn, mx) ^ g_nb)[:3]))
                if g_b != g_nb:
                    bad_brk.append((L, mn, mx, sorted(g_nb - g_b)[:3]))
        ctx.check(not bad_cuts and not bad, "C17b-semi-cuts", f,
                  "with semi on, every cut position 1 .. len-1 is "
                  "considered",
                  f"semi loop {ast.unparse(sl.iter)} under "
                  f"{cfg.conditions(sl)}: (peptide length, fragments "
                  f"missing, fragments in excess) = {bad_cuts[:2]}",
                  node=sl)
        ctx.check(not bad_pair and len(semi_adds) >= 1,
                  "C17b-semi-prefix-suffix", f,
                  "each cut adds the suffix and the prefix of the same length",
                  "(peptide length, loop value, index ranges added) = "
                  f"{bad_pair[:3]}", node=sl)
        ctx.check(not bad_len, "C17b-semi-length", f,
                  "a fragment of an admissible peptide is added iff min <= "
                  "fragment length <= max",
                  "deviates for (len, min, max, index ranges) = "
                  f"{bad_len[:3]}", node=sl)
        ctx.check(not bad_brk, "C17b-semi-length-bounds", f,
                  "the scan over the cuts only stops when no admissible "
                  "fragment can follow",
                  "the scan stops although admissible fragments follow: "
                  f"(len, min, max, lost index ranges) = {bad_brk[:3]}",
                  node=sl)
    except _CU_BASE as e:
        raise AnalysisError(f"{f.qual}: the semi-enzymatic scan is outside "
                            f"the evaluated fragment: {str(e)[:120]}")
    except (EvUnknown, KeyError) as e:
        raise AnalysisError(f"{f.qual}: a guard uses a quantity outside "
                            f"the evaluated fragment: {e}")
    finally:
        seen_h = set()
        for node, tt, o in history:
            k = (getattr(node, "lineno", 0), tkey(tt), o)
            if k in seen_h:
                continue
            seen_h.add(k)
            ctx.fail("C17c-no-history-dependence", f,
                     f"line {getattr(node, 'lineno', '?')}",
                     f"whether this runs depends on {show(tt, 80)} being "
                     f"{o}: the result collected so far decides which forms "
                     "of a peptide are generated, so peptides are lost "
                     "depending on the order in which they are met (and "
                     "widening an option can remove peptides)", node=node)
        if not history:
            ctx.ok("C17c-no-history-dependence", f,
                   "no guard of the digestion reads the result collected so "
                   "far (other than 'not yet in the result' for the value "
                   "being added)")


from ..chunks import Unknown as _CU_BASE  # noqa: E402


def _through(v, pep):
    """is v the term pep or a chain of slices on top of it?"""
    while True:
        if v == pep:
            return True
        if v[0] == "sub" and v[2][0] == "slice":
            v = v[1]
            continue
        return False


def _digest(ctx, f):
    prog = ctx.prog
    du = DefUse(prog, f)
    T = Terms(du)
    rets = T.returns()
    cl = prog.func(FA + "_cleave")
    want = {"sequence": "sequence", "missed_cleavages": "missed_cleavages",
            "min_length": "min_length", "max_length": "max_length",
            "semi": "semi", "clip_nterm_met": "clip_nterm_methionine"}
    for rnode, t in rets:
        ok = t[0] == "call" and t[1] == cl.qual
        ctx.check(ok, "C17c-no-shortcut", f,
                  "every return of digest() is the result of _cleave",
                  f"digest returns {show(t, 120)} on some path without "
                  "running the digestion (clipped / semi forms of that "
                  "case are lost)", node=rnode)
        if not ok:
            continue
        bound = dict(zip(cl.params, t[2]))
        bound.update(dict(t[3]))
        for formal, src in want.items():
            got = bound.get(formal)
            ctx.check(got == ("param", src), "C17c-option-routing", f,
                      f"_cleave({formal}=...) <- digest's {src}",
                      f"{formal} = {show(got, 60) if got else None}",
                      node=rnode)
        st = bound.get("sites")
        ok_s = st is not None and st[0] == "call" and st[1] == \
            FA + "_cleavage_sites" and st[2][:2] == (
                ("param", "sequence"), ("param", "enzyme_regex"))
        ctx.check(ok_s, "C17c-sites-of-this-sequence", f,
                  "the sites handed to _cleave are those of this sequence "
                  "and enzyme", f"sites = {show(st, 100) if st else None}",
                  node=rnode)
    ctx.floor("C17c-returns", len(rets), 1)
    # read_fasta passes its options through (judged on the bound argument
    # terms: keyword / positional / a dictionary of options spread with **)
    from ..proto import Calls
    from ..tutil import bound_args
    from ..paths import var_leaves
    rf = prog.func(FA + "read_fasta")
    rdu = DefUse(prog, rf)
    rT = Terms(rdu, phi_vars=True)
    dcalls = Calls(prog, rf, du=rdu, T=rT, cfg=CFG(rf.node)).calls(f.qual)
    ctx.require(len(dcalls) == 1, f"{rf.qual}: digest call not found")
    b = bound_args(prog, dcalls[0][0])
    ctx.require(b is not None, f"{rf.qual}: the arguments of the digest "
                "call cannot be bound to its parameters")
    exp = {"missed_cleavages": "missed_cleavages", "min_length":
           "min_length", "max_length": "max_length", "semi": "semi",
           "clip_nterm_methionine": "clip_nterm_methionine"}
    for formal, src in exp.items():
        got = b.get(formal)
        ctx.check(got == ("param", src), "C17c-read-fasta-routing", rf,
                  f"digest({formal}=...) <- read_fasta's {src}",
                  f"{formal} = {show(got, 60) if got else None}",
                  node=dcalls[0][1])
    # the enzyme: the caller's compiled pattern as it is, or the caller's
    # string compiled
    got = b.get("enzyme_regex")
    alts = []

    def _alts(x):
        if x[0] == "phi":
            for y in x[1]:
                _alts(y)
        elif x[0] == "ifexp":
            _alts(x[2])
            _alts(x[3])
        elif x[0] == "var":
            for y in var_leaves(rdu, rT, x):
                _alts(y) if y != x else alts.append(y)
        else:
            alts.append(x)
    if got is not None:
        _alts(got)
    P_E = ("param", "enzyme")
    ok_e = bool(alts) and all(a == P_E or (
        a[0] == "call" and a[1] == "re.compile" and a[2][:1] == (P_E,))
        for a in alts)
    ctx.check(ok_e, "C17c-read-fasta-routing", rf,
              "digest(enzyme_regex=...) <- read_fasta's enzyme (compiled "
              "when it is a string)",
              f"enzyme_regex = {show(got, 100) if got else None}",
              node=dcalls[0][1])
