"""C17 - in-silico digestion returns exactly the peptides the rules allow."""

from __future__ import annotations

import ast
import itertools

from ..cfg import CFG
from ..core import AnalysisError, const_value
from ..defuse import DefUse, Terms, show, walk_term
from ..memo import check_no_cross_call_state

EXPLANATION = (
    "Static analysis of parsers.fasta.digest / _cleavage_sites / _cleave. "
    "(a) provenance: every value added to the result is a step-less slice "
    "of the sequence, or of the one enzymatic peptide sequence[start:end] "
    "whose single definition reaches the clipping and semi-enzymatic code. "
    "(b) bounds: sites are [0] + every match end of the enzyme over the "
    "whole sequence + [len]; the missed-cleavage loop spans site gaps "
    "1..mc+1 from every start site; the end index is start + gap and is "
    "range-checked; guards are evaluated over representative lengths: a "
    "peptide is kept iff min <= len <= max, the clipped form is added iff "
    "clipping is on, the peptide starts at site 0 with 'M' and its clipped "
    "length >= min, semi adds prefix and suffix of equal length for every "
    "cut 1..len-1 within the length bounds. (c) monotone: results are only "
    "ever added, options are routed from digest() to the matching "
    "parameters, every return of digest() is the _cleave result (no "
    "shortcut), and nothing is cached across calls. NOT decided: regex "
    "semantics of look-ahead patterns beyond 'the whole sequence is "
    "searched'.")
TECHNIQUE = ("def-use provenance + guard truth tables over representative "
             "lengths + option routing + cross-call state scan")

FA = "mokapot.parsers.fasta."


def run(ctx):
    prog = ctx.prog
    _sites(ctx, prog.func(FA + "_cleavage_sites"))
    _cleave(ctx, prog.func(FA + "_cleave"))
    _digest(ctx, prog.func(FA + "digest"))
    check_no_cross_call_state(
        ctx, "C17c-no-cross-call-state",
        [prog.func(FA + n) for n in ("digest", "_cleave",
                                     "_cleavage_sites")], "digest")


def _sites(ctx, f):
    prog = ctx.prog
    du = DefUse(prog, f)
    T = Terms(du)
    rets = T.returns()
    ctx.require(len(rets) == 1, f"{f.qual}: expected one return")
    rnode, t = rets[0]
    p_seq = f.params[0]
    parts = []

    def flat(x):
        if x[0] == "bin" and x[1] == "+":
            flat(x[2])
            flat(x[3])
        else:
            parts.append(x)
    flat(t)
    ok = len(parts) == 3
    why = show(t, 200)
    if ok:
        first, mid, last = parts
        ok_first = first == ("list", (("const", 0),))
        ok_last = last == ("list", (("call", "builtins.len",
                                     (("param", p_seq),), ()),))
        ok_mid = False
        if mid[0] == "comp" and mid[1] == "list" and len(mid[3]) == 1:
            names, it, conds = mid[3][0]
            elt = mid[2]
            whole = (it[0] == "mcall" and it[2] == "finditer"
                     and it[3] == (("param", p_seq),) and not it[4])
            ends = elt[0] == "mcall" and elt[2] == "end" and not elt[3] \
                and elt[1] == ("elem", it)
            ok_mid = whole and ends and not conds
            if not whole:
                why = (f"matches are searched with {show(it, 100)}: the "
                       "enzyme pattern must see the whole sequence "
                       "(look-ahead at the end, matches at the last "
                       "residue)")
            elif not ends:
                why = f"site is {show(elt, 60)}, not the match end"
        ok = ok_first and ok_last and ok_mid
    ctx.check(ok, "C17b-sites", f,
              "sites = [0] + [end of every enzyme match in the whole "
              "sequence] + [len(sequence)]", why, node=rnode)


class _Len:
    """evaluate guards with len(peptide) etc. as symbols"""

    def __init__(self, env):
        self.env = env

    def ev(self, e):
        if isinstance(e, ast.Constant):
            return e.value
        if isinstance(e, ast.Name):
            if e.id not in self.env:
                raise AnalysisError(f"guard uses unknown name {e.id}")
            return self.env[e.id]
        if isinstance(e, ast.UnaryOp) and isinstance(e.op, ast.Not):
            return not self.ev(e.operand)
        if isinstance(e, ast.BoolOp):
            vals = [self.ev(v) for v in e.values]
            return all(vals) if isinstance(e.op, ast.And) else any(vals)
        if isinstance(e, ast.BinOp):
            a, b = self.ev(e.left), self.ev(e.right)
            return {ast.Add: a + b, ast.Sub: a - b}[type(e.op)]
        if isinstance(e, ast.Call):
            key = ast.unparse(e)
            if key in self.env:
                return self.env[key]
            raise AnalysisError(f"guard uses unknown call {key}")
        if isinstance(e, ast.Compare) and len(e.ops) == 1:
            a, b = self.ev(e.left), self.ev(e.comparators[0])
            return {ast.Lt: a < b, ast.LtE: a <= b, ast.Gt: a > b,
                    ast.GtE: a >= b, ast.Eq: a == b,
                    ast.NotEq: a != b}[type(e.ops[0])]
        raise AnalysisError(f"guard outside fragment: {ast.unparse(e)}")


def _cleave(ctx, f):
    prog = ctx.prog
    du = DefUse(prog, f)
    T = Terms(du, phi_vars=True)
    cfg = CFG(f.node)
    (p_seq, p_sites, p_mc, p_min, p_max, p_semi, p_clip) = f.params
    outer = [n for n in f.node.body if isinstance(n, ast.For)]
    ctx.require(len(outer) == 1, f"{f.qual}: start-site loop not found")
    ol = outer[0]
    ok = ast.unparse(ol.iter) == f"enumerate({p_sites})" and isinstance(
        ol.target, ast.Tuple)
    ctx.check(ok, "C17b-every-start-site", f,
              "every site is tried as a peptide start",
              f"outer loop iterates {ast.unparse(ol.iter)}", node=ol)
    s_idx, s_site = (e.id for e in ol.target.elts)
    inner = [n for n in ol.body if isinstance(n, ast.For)]
    ctx.require(len(inner) == 1, f"{f.qual}: missed-cleavage loop not found")
    il = inner[0]
    gap = il.target.id
    ok = ast.unparse(il.iter) in (f"range(1, {p_mc} + 2)",
                                  f"range(1, 2 + {p_mc})")
    ctx.check(ok, "C17b-gap-range", f,
              "site gaps 1 .. missed_cleavages + 1 are tried",
              f"gap loop is {ast.unparse(il.iter)} (expected range(1, "
              f"{p_mc} + 2))", node=il)
    assigns = {}
    for s in il.body:
        if isinstance(s, ast.Assign) and isinstance(s.targets[0], ast.Name):
            assigns[s.targets[0].id] = s
    # end index = start index + gap, range-checked, end site = sites[end]
    e_idx = [k for k, s in assigns.items()
             if ast.unparse(s.value) in (f"{s_idx} + {gap}",
                                         f"{gap} + {s_idx}")]
    ctx.check(len(e_idx) == 1, "C17b-end-index", f,
              "end index = start index + gap",
              f"assignments: { {k: ast.unparse(v.value) for k, v in assigns.items()} }",
              node=il)
    if len(e_idx) != 1:
        return
    e_idx = e_idx[0]
    rc = [s for s in il.body if isinstance(s, ast.If)
          and ast.unparse(s.test) in (f"{e_idx} >= len({p_sites})",
                                      f"len({p_sites}) <= {e_idx}")]
    ok = len(rc) == 1 and len(rc[0].body) == 1 and isinstance(
        rc[0].body[0], (ast.Continue, ast.Break))
    ctx.check(ok, "C17b-end-index-range-check", f,
              "gaps that run past the last site are skipped",
              "no 'if end_idx >= len(sites): continue'", node=il)
    e_site = [k for k, s in assigns.items()
              if ast.unparse(s.value) == f"{p_sites}[{e_idx}]"]
    pep = [k for k, s in assigns.items() if e_site and ast.unparse(
        s.value) == f"{p_seq}[{s_site}:{e_site[0]}]"]
    ctx.check(len(pep) == 1, "C17a-peptide-is-site-to-site-slice", f,
              "the enzymatic peptide is sequence[start_site:end_site]",
              f"assignments: { {k: ast.unparse(v.value) for k, v in assigns.items()} }",
              node=il)
    if len(pep) != 1:
        return
    pep = pep[0]
    # the peptide variable has a single definition inside the gap loop
    pep_defs = [n for n in ast.walk(il) if isinstance(n, ast.Name)
                and n.id == pep and isinstance(n.ctx, ast.Store)]
    ctx.check(len(pep_defs) == 1, "C17a-peptide-single-definition", f,
              "the enzymatic peptide is not re-bound before the clipped and "
              "semi-enzymatic forms are derived from it",
              f"'{pep}' is assigned {len(pep_defs)} times in the loop: the "
              "semi-enzymatic fragments / later forms are cut from a "
              "different string than the enzymatic peptide", node=il)
    # length filter truth table
    lf = [s for s in il.body if isinstance(s, ast.If)
          and f"len({pep})" in ast.unparse(s.test)
          and len(s.body) == 1 and isinstance(s.body[0], ast.Continue)]
    ctx.require(len(lf) == 1, f"{f.qual}: length filter not found")
    bad = []
    for L in (4, 5, 7, 9, 10):
        env = {f"len({pep})": L, p_min: 5, p_max: 9}
        skip = bool(_Len(env).ev(lf[0].test))
        if skip != (L < 5 or L > 9):
            bad.append((L, skip))
    ctx.check(not bad, "C17b-length-filter", f,
              "a peptide is kept iff min_length <= len <= max_length",
              f"filter '{ast.unparse(lf[0].test)}' deviates for (len, "
              f"skipped) = {bad} with min=5, max=9", node=lf[0])
    # everything added to the result
    adds = [n for n in ast.walk(il) if isinstance(n, ast.Call)
            and isinstance(n.func, ast.Attribute) and n.func.attr == "add"]
    unions = [n for n in ast.walk(il) if isinstance(n, ast.Call)
              and isinstance(n.func, ast.Attribute)
              and n.func.attr in ("union", "update")]
    removes = [n for n in ast.walk(f.node) if isinstance(n, ast.Call)
               and isinstance(n.func, ast.Attribute)
               and n.func.attr in ("remove", "discard", "difference",
                                   "difference_update", "pop", "clear",
                                   "intersection")]
    ctx.check(not removes, "C17c-only-added", f,
              "peptides are only ever added to the result",
              f"result is reduced by {[ast.unparse(r)[:40] for r in removes]}",
              node=f.node)

    def is_slice_of(e, base_names):
        if isinstance(e, ast.Name):
            return e.id in base_names
        if isinstance(e, ast.Subscript) and isinstance(e.slice, ast.Slice) \
                and e.slice.step is None:
            return is_slice_of(e.value, base_names)
        return False

    added = []
    for a in adds:
        added.append((a, a.args[0]))
    for u in unions:
        arg = u.args[0]
        if isinstance(arg, ast.Name):
            ds = [s for s in ast.walk(il) if isinstance(s, ast.Assign)
                  and ast.unparse(s.targets[0]) == arg.id]
            for d in ds:
                if isinstance(d.value, ast.Set):
                    for e in d.value.elts:
                        added.append((u, e))
                else:
                    added.append((u, d.value))
        elif isinstance(arg, ast.Set):
            for e in arg.elts:
                added.append((u, e))
        else:
            added.append((u, arg))
    ctx.floor("C17a-added-values", len(added), 4)
    for node, e in added:
        ctx.check(is_slice_of(e, {pep}), "C17a-substring-provenance", f,
                  f"added value {ast.unparse(e)} is a contiguous slice of "
                  "the enzymatic peptide",
                  f"{ast.unparse(e)} is not a step-less slice of "
                  f"'{pep}' (= {p_seq}[start:end])", node=node)
    # main add is unconditional after the filters
    main = [a for a, e in added if isinstance(e, ast.Name) and e.id == pep]
    ok_main = len(main) == 1 and not [
        g for g in cfg.guards(main[0]) if any(
            g[0] is s.test for s in ast.walk(il) if isinstance(s, ast.If))]
    ctx.check(ok_main, "C17b-peptide-always-added", f,
              "a peptide that passes the filters is always added",
              "the enzymatic peptide is added conditionally", node=il)
    # clipping
    clip = [a for a, e in added if ast.unparse(e) == f"{pep}[1:]"]
    ctx.require(len(clip) == 1, f"{f.qual}: clipped form not found")
    gs = [g for g in cfg.guards(clip[0])
          if any(g[0] is s.test for s in ast.walk(il)
                 if isinstance(s, ast.If))]
    bad = []
    for flag, sidx, m, L in itertools.product((True, False), (0, 1),
                                              (True, False), (5, 6, 7)):
        env = {p_clip: flag, s_idx: sidx,
               f"{pep}.startswith('M')": m, f"len({pep}[1:])": L - 1,
               f"len({pep})": L, p_min: 5, p_max: 9}
        try:
            got = all(bool(_Len(env).ev(t)) == pol for t, pol in gs)
        except AnalysisError as e:
            raise AnalysisError(f"{f.qual}: clip guard: {e}")
        want = flag and sidx == 0 and m and (L - 1) >= 5
        if got != want:
            bad.append({"clip": flag, "start_idx": sidx, "M": m, "len": L,
                        "added": got})
    ctx.check(not bad, "C17b-clip-condition", f,
              "clipped form added iff clipping is on, the peptide starts "
              "the protein, begins with M and the clipped length >= "
              "min_length (24 valuations)",
              f"deviates for {bad[:3]}", node=clip[0])
    # semi: loop idx in range(1, len(peptide)); prefix/suffix equal length
    sl = [n for n in ast.walk(il) if isinstance(n, ast.For)
          and n is not il]
    ctx.require(len(sl) == 1, f"{f.qual}: semi loop not found")
    sl = sl[0]
    cut = sl.target.id
    ok = ast.unparse(sl.iter) == f"range(1, len({pep}))"
    gsl = [g for g in cfg.guards(sl) if any(
        g[0] is s.test for s in ast.walk(il) if isinstance(s, ast.If))]
    ok_flag = len(gsl) == 1 and ast.unparse(gsl[0][0]) == p_semi and \
        gsl[0][1]
    ctx.check(ok and ok_flag, "C17b-semi-cuts", f,
              "with semi on, every cut position 1 .. len-1 is considered",
              f"semi loop {ast.unparse(sl.iter)} under "
              f"{[ast.unparse(g[0]) for g in gsl]}", node=sl)
    semi_vals = sorted(ast.unparse(e) for a, e in added
                       if any(x is a for x in ast.walk(sl)))
    ctx.check(semi_vals == sorted([f"{pep}[{cut}:]", f"{pep}[:-{cut}]"]),
              "C17b-semi-prefix-suffix", f,
              "each cut adds the suffix and the prefix of the same length",
              f"semi adds {semi_vals}", node=sl)
    # length guards inside semi loop
    slen = [s for s in sl.body if isinstance(s, ast.Assign)]
    ln = slen[0].targets[0].id if slen and ast.unparse(
        slen[0].value) == f"len({pep}) - {cut}" else None
    ctx.check(ln is not None, "C17b-semi-length", f,
              "fragment length = len(peptide) - cut",
              f"{[ast.unparse(s) for s in slen]}", node=sl)
    if ln:
        gi = [s for s in sl.body if isinstance(s, ast.If)]
        table = {}
        for s in gi:
            act = type(s.body[0]).__name__ if s.body else "?"
            table[ast.unparse(s.test)] = act
        ok = table.get(f"{ln} < {p_min}") in ("Break", "Continue") and \
            table.get(f"{ln} > {p_max}") == "Continue"
        ctx.check(ok, "C17b-semi-length-bounds", f,
                  "fragments shorter than min end the scan (lengths only "
                  "shrink), longer than max are skipped",
                  f"guards: {table}", node=sl)
    rets = [n for n in ast.walk(f.node) if isinstance(n, ast.Return)]
    ok = len(rets) == 1 and isinstance(rets[0].value, ast.Name)
    ctx.check(ok, "C17c-returns-result-set", f,
              "the accumulated set is returned",
              f"{[ast.unparse(r) for r in rets]}", node=f.node)


def _digest(ctx, f):
    prog = ctx.prog
    du = DefUse(prog, f)
    T = Terms(du)
    rets = T.returns()
    cl = prog.func(FA + "_cleave")
    want = {"sequence": "sequence", "missed_cleavages": "missed_cleavages",
            "min_length": "min_length", "max_length": "max_length",
            "semi": "semi", "clip_nterm_met": "clip_nterm_methionine"}
    for rnode, t in rets:
        ok = t[0] == "call" and t[1] == cl.qual
        ctx.check(ok, "C17c-no-shortcut", f,
                  "every return of digest() is the result of _cleave",
                  f"digest returns {show(t, 120)} on some path without "
                  "running the digestion (clipped / semi forms of that "
                  "case are lost)", node=rnode)
        if not ok:
            continue
        bound = dict(zip(cl.params, t[2]))
        bound.update(dict(t[3]))
        for formal, src in want.items():
            got = bound.get(formal)
            ctx.check(got == ("param", src), "C17c-option-routing", f,
                      f"_cleave({formal}=...) <- digest's {src}",
                      f"{formal} = {show(got, 60) if got else None}",
                      node=rnode)
        st = bound.get("sites")
        ok_s = st is not None and st[0] == "call" and st[1] == \
            FA + "_cleavage_sites" and st[2][:2] == (
                ("param", "sequence"), ("param", "enzyme_regex"))
        ctx.check(ok_s, "C17c-sites-of-this-sequence", f,
                  "the sites handed to _cleave are those of this sequence "
                  "and enzyme", f"sites = {show(st, 100) if st else None}",
                  node=rnode)
    ctx.floor("C17c-returns", len(rets), 1)
    # read_fasta passes its options through
    rf = prog.func(FA + "read_fasta")
    calls = [n for n in ast.walk(rf.node) if isinstance(n, ast.Call)
             and ast.unparse(n.func) == "digest"]
    ctx.require(len(calls) == 1, f"{rf.qual}: digest call not found")
    b = prog.bind(f, calls[0])
    exp = {"missed_cleavages": "missed_cleavages", "min_length":
           "min_length", "max_length": "max_length", "semi": "semi",
           "clip_nterm_methionine": "clip_nterm_methionine",
           "enzyme_regex": "enzyme_regex"}
    for formal, src in exp.items():
        got = ast.unparse(b[formal]) if formal in b else None
        ctx.check(got == src, "C17c-read-fasta-routing", rf,
                  f"digest({formal}=...) <- read_fasta's {src}",
                  f"{formal} = {got}", node=calls[0])
