"""Container update events of one function: every in-place change of a list,
set or dict (subscript store, del, mutating method call) with the term of the
object that is changed, the terms of key / arguments, and the semantic
conditions under which it runs.  Rules match on these facts instead of on
statement shapes, so aliases (``s = d[k]; s.add(x)``), temporaries, early
``continue`` and swapped branches do not matter."""

from __future__ import annotations

import ast

from .core import walk_own
from .defuse import MUTATORS

MORE_MUTATORS = {"difference_update", "intersection_update",
                 "symmetric_difference_update", "appendleft", "popleft"}


class Event:
    __slots__ = ("kind", "recv", "key", "args", "kwargs", "node", "stmt",
                 "value")

    def __init__(self, kind, recv, key, args, kwargs, node, stmt,
                 value=None):
        self.kind = kind      # 'store' | 'del' | 'aug' | method name
        self.recv = recv      # term of the container that changes
        self.key = key        # term of the subscript key (store/del/aug)
        self.args = args      # terms of positional arguments (methods)
        self.kwargs = kwargs
        self.node = node
        self.stmt = stmt
        self.value = value    # term of the stored value

    def __repr__(self):
        return f"<Event {self.kind} @{getattr(self.node, 'lineno', 0)}>"


def _recv(T, node):
    """receiver term; a local alias that was only updated in place since it
    was bound (a = xs[i]; a += ..) denotes the object it was bound to"""
    t = T.of(node)
    if isinstance(node, ast.Name) and t[0] == "var":
        try:
            b = alias_base(T.du, T, node)
        except Exception:  # noqa: BLE001
            b = None
        if b is not None:
            return b
    return t


def container_events(fnode, T, cfg):
    out = []
    for n in walk_own(fnode):
        if isinstance(n, ast.Assign):
            for tg in n.targets:
                if isinstance(tg, ast.Subscript):
                    out.append(Event("store", _recv(T, tg.value),
                                     T.of(tg.slice),
                                     (), {}, tg, n, T.of(n.value)))
                elif isinstance(tg, (ast.Tuple, ast.List)):
                    # (d[k], x) = value : element i of the value is stored
                    vt = T.of(n.value)
                    for i, el in enumerate(tg.elts):
                        if isinstance(el, ast.Subscript):
                            out.append(Event(
                                "store", T.of(el.value), T.of(el.slice), (),
                                {}, el, n, ("item", vt, i)))
        elif isinstance(n, ast.AugAssign) and isinstance(
                n.target, ast.Subscript):
            out.append(Event("aug", _recv(T, n.target.value),
                             T.of(n.target.slice), (), {}, n.target, n,
                             T.of(n.value)))
        elif isinstance(n, ast.Delete):
            for tg in n.targets:
                if isinstance(tg, ast.Subscript):
                    out.append(Event("del", T.of(tg.value), T.of(tg.slice),
                                     (), {}, tg, n))
        elif isinstance(n, ast.Call) and isinstance(n.func, ast.Attribute) \
                and n.func.attr in (MUTATORS | MORE_MUTATORS):
            try:
                st = cfg.stmt_of(n)
            except Exception:
                st = None
            out.append(Event(
                n.func.attr, _recv(T, n.func.value), None,
                tuple(T.of(a) for a in n.args),
                {k.arg: T.of(k.value) for k in n.keywords if k.arg},
                n, st))
    return out


def root_name(t):
    """name of the variable / parameter a container term is rooted in
    (through subscripts, stores and mutations)"""
    while True:
        if t[0] in ("var", "param", "lparam"):
            return t[1]
        if t[0] in ("sub", "store", "mut", "mutsub", "attr", "item",
                    "delitem", "augstore"):
            t = t[1]
            continue
        if t[0] == "phi":
            names = {root_name(x) for x in t[1]}
            return names.pop() if len(names) == 1 else None
        if t[0] == "zipelem" and len(t) == 3 and isinstance(t[1], int) \
                and t[1] < len(t[2]):
            # the current element of one of the zipped containers
            t = t[2][t[1]]
            continue
        return None


def accumulations(fnode, T, name):
    """Every way the set / list variable ``name`` grows in ``fnode``:
    [(node, element term)] for single elements and [(node, ('*', term))] for
    a whole collection that is not a display.  Recognised spellings:
    x.add(e) / x.append(e); x.update(D) / x.extend(D); x |= D / x += D;
    x = x | D / x = x + D / x = x.union(D, ...).  D may be a set / list /
    tuple display (its elements are reported one by one)."""
    out = []

    def spread(node, d):
        t = T.of(d)
        if t[0] in ("set", "list", "tuple"):
            for e in t[1]:
                out.append((node, e))
        else:
            out.append((node, ("*", t)))

    def is_x(e):
        return isinstance(e, ast.Name) and e.id == name

    for n in walk_own(fnode):
        if isinstance(n, ast.Call) and isinstance(n.func, ast.Attribute) \
                and is_x(n.func.value):
            if n.func.attr in ("add", "append") and len(n.args) == 1:
                out.append((n, T.of(n.args[0])))
            elif n.func.attr in ("update", "extend"):
                for a in n.args:
                    spread(n, a)
        elif isinstance(n, ast.AugAssign) and is_x(n.target) and isinstance(
                n.op, (ast.BitOr, ast.Add)):
            spread(n, n.value)
        elif isinstance(n, ast.Assign) and len(n.targets) == 1 and is_x(
                n.targets[0]):
            v = n.value
            if isinstance(v, ast.BinOp) and isinstance(
                    v.op, (ast.BitOr, ast.Add)) and (
                        is_x(v.left) or is_x(v.right)):
                spread(n, v.right if is_x(v.left) else v.left)
            elif isinstance(v, ast.Call) and isinstance(
                    v.func, ast.Attribute) and v.func.attr == "union" and \
                    is_x(v.func.value):
                for a in v.args:
                    spread(n, a)
    return out


_INPLACE_OPS = ("Add", "BitOr", "BitAnd", "Sub", "BitXor", "Mult")


def alias_base(du, T, name_node):
    """Term of the object a name denotes when every definition reaching
    ``name_node`` is one plain assignment ``a = E``, possibly followed by
    in-place augmented assignments (``a += x`` keeps the identity of a
    list / set / dict).  None otherwise."""
    seen, work, bases = set(), list(du.defs_of(name_node)), {}
    closure = []
    while work:
        d = work.pop()
        if id(d) in seen:
            continue
        seen.add(id(d))
        closure.append(d)
        ex = d.extra or {}
        if d.kind == "aug" and ex.get("op") in _INPLACE_OPS:
            work.extend(x for x in ex.get("prev", ()) if hasattr(x, "kind"))
        elif d.kind == "mut" and ex.get("prev") is not None:
            # a.append(x) / a.remove(x): the same object afterwards
            prev = ex.get("prev")
            work.extend(x for x in (prev if isinstance(
                prev, (list, tuple, set, frozenset)) else [prev])
                if hasattr(x, "kind"))
    via_mut = any(d.kind == "mut" for d in closure)
    for d in closure:
        ex = d.extra or {}
        if d.kind == "aug" and ex.get("op") in _INPLACE_OPS:
            continue
        if d.kind == "mut" and ex.get("prev") is not None:
            continue
        if d.kind == "assign" and not ex.get("path") and \
                d.value is not None:
            v = d.value
            if via_mut and not isinstance(
                    v, (ast.Subscript, ast.Attribute, ast.Name)):
                # a fresh object that the name itself owns (xs = []; then
                # xs.append): the variable is its identity
                return None
            if isinstance(v, ast.Subscript) and isinstance(
                    v.value, ast.Name):
                # keep the identity of the container variable: xs[i], not
                # the value xs was initialised with
                t = ("sub", ("var", v.value.id, ()), T.of(v.slice))
            else:
                t = T.of(v)
            bases[repr(t)] = t
        else:
            return None
    return next(iter(bases.values())) if len(bases) == 1 else None


def name_aug_events(fnode, du, T, cfg):
    """``a += E`` / ``a |= E`` on a plain name as container events: the
    receiver is the object ``a`` aliases (see alias_base), so an update
    through ``a = xs[i]; a += more`` is reported on ``xs[i]``."""
    out = []
    for n in walk_own(fnode):
        if isinstance(n, ast.AugAssign) and isinstance(n.target, ast.Name) \
                and type(n.op).__name__ in _INPLACE_OPS:
            base = alias_base(du, T, n.target)
            if base is None:
                continue
            out.append(Event("aug", base, None, (), {}, n.target, n,
                             T.of(n.value)))
    return out
