"""Small syntax helpers shared by the rules."""
from __future__ import annotations

import ast


def live(body, scope=None):
    """Statements of ``body`` without no-ops: pass, docstrings / bare
    constants, logging calls, and constant assignments to names that are
    never read inside ``scope`` (default: the statements themselves)."""
    out = []
    scope_nodes = list(ast.walk(scope)) if scope is not None else [
        n for s in body for n in ast.walk(s)]
    reads = {n.id for n in scope_nodes if isinstance(n, ast.Name)
             and isinstance(n.ctx, ast.Load)}
    for s in body:
        if isinstance(s, ast.Pass):
            continue
        if isinstance(s, ast.Expr) and isinstance(s.value, ast.Constant):
            continue
        if isinstance(s, ast.Expr) and isinstance(s.value, ast.Call) and \
                ast.unparse(s.value.func).split(".")[0] in ("LOGGER",
                                                            "logging"):
            continue
        if isinstance(s, ast.Assign) and len(s.targets) == 1 and isinstance(
                s.targets[0], ast.Name) and isinstance(
                    s.value, ast.Constant) and s.targets[0].id not in reads:
            continue
        out.append(s)
    return out


def norm_guards(guards):
    """[(test expr, polarity)] -> [(source of the un-negated test, truth)]:
    'not X' under polarity p becomes (X, not p)."""
    out = []
    for test, pol in guards:
        while isinstance(test, ast.UnaryOp) and isinstance(test.op, ast.Not):
            test = test.operand
            pol = not pol
        out.append((ast.unparse(test), pol))
    return out


def guard_says(guards, text, truth):
    """Is ``text`` required to have truth value ``truth`` by the guards?"""
    return (text, truth) in norm_guards(guards)


def cond_terms(cfg, T, node):
    """Necessary conditions of ``node`` as [(term, outcome)], leading
    negations folded into the outcome (semantic guards: independent of
    early-return / nested-if / swapped-arm spelling)."""
    out = []
    for test, outcome in cfg.necessary_conditions(node):
        t = T.of(test)
        while t[0] == "un" and t[1] == "not":
            t = t[2]
            outcome = not outcome
        out.append((t, outcome))
    return out


def requires_flag(conds, name, truth=True):
    """Do the conditions force parameter ``name`` to have ``truth``?"""
    return (("param", name), truth) in conds


_SIZE_ATTRS = {"shape", "size", "empty"}
_SIZE_CALLS = {"sum", "any", "all", "nunique", "count", "count_nonzero"}


def size_dependent(term):
    """Does the term read an amount of rows / matches (len, shape, size,
    empty, sum, any, all ...)?"""
    from .defuse import walk_term
    for x in walk_term(term):
        if not isinstance(x, tuple) or not x:
            continue
        if x[0] == "attr" and x[2] in _SIZE_ATTRS:
            return True
        if x[0] == "mcall" and x[2] in _SIZE_CALLS:
            return True
        if x[0] == "call" and str(x[1]).split(".")[-1] in (
                "len", "sum", "any", "all", "count_nonzero"):
            return True
    return False


_CMP_NORM = {"<": ("lt", False), "<=": ("le", False), ">": ("lt", True),
             ">=": ("le", True), "==": ("eq", False), "!=": ("ne", False)}
_CMP_NEG = {"<": ">=", "<=": ">", ">": "<=", ">=": "<", "==": "!=",
            "!=": "=="}


def norm_cmp(term, outcome=True):
    """('cmp', op, a, b) holding with ``outcome`` -> ('lt'|'le'|'eq'|'ne',
    x, y) with x < y / x <= y orientation; None for anything else."""
    if not (isinstance(term, tuple) and term and term[0] == "cmp"
            and term[1] in _CMP_NORM):
        return None
    op = term[1] if outcome else _CMP_NEG[term[1]]
    kind, swap = _CMP_NORM[op]
    a, b = term[2], term[3]
    if swap:
        a, b = b, a
    if kind in ("eq", "ne") and repr(b) < repr(a):
        a, b = b, a
    return (kind, a, b)


def inside(node, root):
    return any(n is node for n in ast.walk(root))


class CondUnknown(Exception):
    pass


def eval_cond(test, env):
    """Evaluate a guard over a finite valuation: names (looked up in ``env``
    by source text of the sub-expression first, so ``obj.attr`` can be an
    atom too), constants, not / and / or, == != in not-in is is-not.
    Raises CondUnknown for anything else."""
    txt = ast.unparse(test)
    if txt in env:
        return env[txt]
    if isinstance(test, ast.Constant):
        return test.value
    if isinstance(test, ast.UnaryOp) and isinstance(test.op, ast.Not):
        return not eval_cond(test.operand, env)
    if isinstance(test, ast.BoolOp):
        vals = (eval_cond(v, env) for v in test.values)
        if isinstance(test.op, ast.And):
            r = True
            for v in vals:
                r = v
                if not r:
                    return r
            return r
        r = False
        for v in vals:
            r = v
            if r:
                return r
        return r
    if isinstance(test, ast.Compare):
        left = eval_cond(test.left, env)
        for op, comp in zip(test.ops, test.comparators):
            right = eval_cond(comp, env)
            if isinstance(op, ast.Eq):
                ok = left == right
            elif isinstance(op, ast.NotEq):
                ok = left != right
            elif isinstance(op, ast.In):
                ok = left in right
            elif isinstance(op, ast.NotIn):
                ok = left not in right
            elif isinstance(op, ast.Is):
                ok = left is right
            elif isinstance(op, ast.IsNot):
                ok = left is not right
            else:
                raise CondUnknown(txt)
            if not ok:
                return False
            left = right
        return True
    if isinstance(test, (ast.Tuple, ast.List, ast.Set)):
        return [eval_cond(e, env) for e in test.elts]
    raise CondUnknown(txt)


def kleene(t, truth):
    """Three-valued value (True / False / None = unknown) of a condition
    term when only some of its atoms are known.  ``truth(atom)`` returns
    True / False / None for an atom; comparisons are offered to ``truth``
    in the orientation-free normal form of ``norm_cmp`` (as holding) as
    well as verbatim.  not / and / or follow Kleene's strong logic, so
    ``A or B`` is True as soon as A is known to be True."""
    k = t[0]
    if k == "un" and t[1] == "not":
        v = kleene(t[2], truth)
        return None if v is None else (not v)
    if k == "bool":
        vals = [kleene(x, truth) for x in t[2]]
        if t[1] == "and":
            if any(v is False for v in vals):
                return False
            return True if all(v is True for v in vals) else None
        if any(v is True for v in vals):
            return True
        return False if all(v is False for v in vals) else None
    if k == "ifexp":
        c = kleene(t[1], truth)
        if c is None:
            a, b = kleene(t[2], truth), kleene(t[3], truth)
            return a if a == b else None
        return kleene(t[2] if c else t[3], truth)
    v = truth(t)
    if v is not None:
        return v
    if k == "cmp":
        n = norm_cmp(t, True)
        if n is not None:
            v = truth(n)
            if v is not None:
                return v
            neg = norm_cmp(t, False)
            v = truth(neg) if neg is not None else None
            if v is not None:
                return not v
    if k == "const":
        return bool(t[1])
    return None


def forced_by(cfg, T, node, reference, truth):
    """Is ``node`` (a return / raise ...) necessarily reached, instead of
    ``reference``, once the atoms known to ``truth`` hold?  The conditions
    the two statements share are set aside; every remaining necessary
    condition of ``node`` must evaluate (three-valued) to its required
    outcome."""
    from .defuse import key as _k
    ref = {(_k(t), o) for t, o in cond_terms(cfg, T, reference)}
    rest = [(t, o) for t, o in cond_terms(cfg, T, node)
            if (_k(t), o) not in ref]
    return bool(rest) and all(kleene(t, truth) is o for t, o in rest)
