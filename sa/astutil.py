"""Small syntax helpers shared by the rules."""
from __future__ import annotations

import ast


def live(body, scope=None):
    """Statements of ``body`` without no-ops: pass, docstrings / bare
    constants, logging calls, and constant assignments to names that are
    never read inside ``scope`` (default: the statements themselves)."""
    out = []
    scope_nodes = list(ast.walk(scope)) if scope is not None else [
        n for s in body for n in ast.walk(s)]
    reads = {n.id for n in scope_nodes if isinstance(n, ast.Name)
             and isinstance(n.ctx, ast.Load)}
    for s in body:
        if isinstance(s, ast.Pass):
            continue
        if isinstance(s, ast.Expr) and isinstance(s.value, ast.Constant):
            continue
        if isinstance(s, ast.Expr) and isinstance(s.value, ast.Call) and \
                ast.unparse(s.value.func).split(".")[0] in ("LOGGER",
                                                            "logging"):
            continue
        if isinstance(s, ast.Assign) and len(s.targets) == 1 and isinstance(
                s.targets[0], ast.Name) and isinstance(
                    s.value, ast.Constant) and s.targets[0].id not in reads:
            continue
        out.append(s)
    return out


def norm_guards(guards):
    """[(test expr, polarity)] -> [(source of the un-negated test, truth)]:
    'not X' under polarity p becomes (X, not p)."""
    out = []
    for test, pol in guards:
        while isinstance(test, ast.UnaryOp) and isinstance(test.op, ast.Not):
            test = test.operand
            pol = not pol
        out.append((ast.unparse(test), pol))
    return out


def guard_says(guards, text, truth):
    """Is ``text`` required to have truth value ``truth`` by the guards?"""
    return (text, truth) in norm_guards(guards)
