"""Term utilities: numpy call normalisation, stripping, LIN normal form and the
point-wise truth-table evaluator (TT)."""

from __future__ import annotations

from fractions import Fraction

from .defuse import key as _tkey
from .defuse import show, walk_term

NP = "numpy."
NONE = ("const", None)


def np_call(t):
    """Normalise ``np.f(x, ...)`` and ``x.f(...)`` to (fname, args, kwargs)
    with the receiver as first argument; None when ``t`` is not a call."""
    if t[0] == "call":
        name = t[1]
        if name.startswith(NP):
            return (name[len(NP):], list(t[2]), dict(t[3]))
        return (name, list(t[2]), dict(t[3]))
    if t[0] == "mcall":
        if t[1][0] == "name":
            full = f"{t[1][1]}.{t[2]}"
            if full.startswith(NP):
                full = full[len(NP):]
            return (full, list(t[3]), dict(t[4]))
        return (t[2], [t[1]] + list(t[3]), dict(t[4]))
    return None


CONVERSIONS = {"array", "asarray", "astype", "copy", "to_numpy", "float32",
               "float64", "builtins.float", "squeeze", "ravel", "flatten"}


def strip_conv(t):
    """Remove element-wise dtype/container conversions and ``.values``;
    a phi whose alternatives are all conversions of one value collapses."""
    while True:
        c = np_call(t)
        if c and c[0] in CONVERSIONS and c[1]:
            t = c[1][0]
            continue
        if t[0] == "attr" and t[2] in ("values",):
            t = t[1]
            continue
        if t[0] == "phi":
            alts = {strip_conv(x) for x in t[1]}
            # nested phis of the same thing
            flat = set()
            for a in alts:
                if a[0] == "phi":
                    flat |= {strip_conv(y) for y in a[1]}
                else:
                    flat.add(a)
            if len(flat) == 1:
                t = next(iter(flat))
                continue
        return t


def is_flip(t):
    """x if t is np.flip(x) / x[::-1] else None."""
    c = np_call(t)
    if c and c[0] == "flip" and c[1]:
        return c[1][0]
    if t[0] == "sub" and t[2] == ("slice", NONE, NONE, ("const", -1)):
        return t[1]
    return None


def strip_flips(t):
    n = 0
    while True:
        t = strip_conv(t)
        x = is_flip(t)
        if x is None:
            return t, n
        t = x
        n += 1


def find_calls(t, fname):
    """All sub-terms that are calls of ``fname`` (np-normalised name or a
    fully qualified repo name)."""
    out = []
    for x in walk_term(t):
        if x[0] == "call" and x[1] == fname:
            out.append(x)
        else:
            c = np_call(x) if x[0] in ("call", "mcall") else None
            if c and c[0] == fname:
                out.append(x)
    return out


def const_of(t):
    if t[0] == "const":
        return t[1]
    return None


# ---------------------------------------------------------------------- LIN
class Lin:
    """Linear form  sum(coeff * atom) + const  over opaque atoms (shown
    terms).  Non-linear sub-terms become atoms."""

    def __init__(self, atoms=None, const=Fraction(0)):
        self.atoms = {k: v for k, v in (atoms or {}).items() if v != 0}
        self.const = Fraction(const)
        self.terms = {}

    def __add__(self, o):
        a = dict(self.atoms)
        for k, v in o.atoms.items():
            a[k] = a.get(k, 0) + v
        r = Lin(a, self.const + o.const)
        r.terms = {**self.terms, **o.terms}
        return r

    def scale(self, c):
        r = Lin({k: v * c for k, v in self.atoms.items()}, self.const * c)
        r.terms = dict(self.terms)
        return r

    def is_const(self):
        return not self.atoms

    def __eq__(self, o):
        return self.atoms == o.atoms and self.const == o.const

    def __repr__(self):
        parts = [f"{v}*{k}" for k, v in sorted(self.atoms.items())]
        parts.append(str(self.const))
        return " + ".join(parts)


def lin(t, atom_key=None) -> Lin:
    """Linear normal form of a term.  ``atom_key`` maps an atom term to its
    key (default: shown text after stripping conversions)."""
    key = atom_key or (lambda x: _tkey(strip_conv(x)))
    t0 = t
    t = strip_conv(t)
    if t[0] == "const" and isinstance(t[1], (int, float)) and not isinstance(
            t[1], bool):
        return Lin(const=Fraction(t[1]).limit_denominator(10**9))
    if t[0] == "bin":
        op = t[1]
        if op == "+":
            return lin(t[2], atom_key) + lin(t[3], atom_key)
        if op == "-":
            return lin(t[2], atom_key) + lin(t[3], atom_key).scale(-1)
        if op == "*":
            a, b = lin(t[2], atom_key), lin(t[3], atom_key)
            if a.is_const():
                return b.scale(a.const)
            if b.is_const():
                return a.scale(b.const)
        if op == "/":
            a, b = lin(t[2], atom_key), lin(t[3], atom_key)
            if b.is_const() and b.const != 0:
                return a.scale(1 / b.const)
    if t[0] == "un" and t[1] == "-":
        return lin(t[2], atom_key).scale(-1)
    if t[0] == "un" and t[1] == "+":
        return lin(t[2], atom_key)
    k = key(t)
    r = Lin({k: Fraction(1)})
    r.terms[k] = t
    return r


# ----------------------------------------------------------------------- TT
class TTUnknown(Exception):
    pass


def tt_eval(t, atoms):
    """Evaluate a point-wise term under a valuation.

    ``atoms`` is a callable: atoms(term) -> python value or raises KeyError
    when the term is not an atom.  Supported: boolean connectives (python
    and numpy spellings), comparisons between atoms/constants, masked stores
    (``x[mask] = c`` chains), np.where, constants, np.ones/zeros(len(..)).
    Raises TTUnknown for anything else.
    """
    try:
        return atoms(t)
    except KeyError:
        pass
    k = t[0]
    if k == "const":
        return t[1]
    c = np_call(t) if k in ("call", "mcall") else None
    if c:
        name, args, kwargs = c
        if name in CONVERSIONS and args:
            if name == "astype" and len(args) > 1:
                v = tt_eval(args[0], atoms)
                ty = args[1]
                if ty == ("name", "builtins.bool") or ty == ("free", "bool"):
                    return bool(v)
                if ty in (("name", "builtins.int"), ("free", "int")):
                    return int(v)
                return v
            return tt_eval(args[0], atoms)
        if name in ("logical_and",):
            return bool(tt_eval(args[0], atoms)) and bool(
                tt_eval(args[1], atoms))
        if name in ("logical_or",):
            return bool(tt_eval(args[0], atoms)) or bool(
                tt_eval(args[1], atoms))
        if name in ("logical_not", "invert"):
            return not bool(tt_eval(args[0], atoms))
        if name in ("ones", "ones_like"):
            return 1
        if name in ("zeros", "zeros_like"):
            return 0
        if name == "full" and len(args) > 1:
            return tt_eval(args[1], atoms)
        if name == "full_like" and len(args) > 1:
            return tt_eval(args[1], atoms)
        if name == "where" and len(args) == 3:
            return tt_eval(args[1], atoms) if tt_eval(args[0], atoms) \
                else tt_eval(args[2], atoms)
        raise TTUnknown(f"call {name}")
    if k == "attr" and t[2] == "values":
        return tt_eval(t[1], atoms)
    if k == "un":
        v = tt_eval(t[2], atoms)
        if t[1] in ("~", "not"):
            if not isinstance(v, bool):
                raise TTUnknown("bitwise not of a non-boolean")
            return not v
        if t[1] == "-":
            return -v
        return v
    if k == "bool":
        vals = [tt_eval(x, atoms) for x in t[2]]
        return all(vals) if t[1] == "and" else any(vals)
    if k == "bin":
        a, b = tt_eval(t[2], atoms), tt_eval(t[3], atoms)
        op = t[1]
        if op == "&":
            return a & b
        if op == "|":
            return a | b
        if op == "^":
            return a ^ b
        if op == "+":
            return a + b
        if op == "-":
            return a - b
        if op == "*":
            return a * b
        if op == "/":
            return a / b
        if op == "**":
            return a ** b
        raise TTUnknown(f"binary {op}")
    if k == "cmp":
        a, b = tt_eval(t[2], atoms), tt_eval(t[3], atoms)
        op = t[1]
        if isinstance(a, Sym) or isinstance(b, Sym):
            return Sym.compare(op, a, b)
        return {"==": a == b, "!=": a != b, "<": a < b, "<=": a <= b,
                ">": a > b, ">=": a >= b}[op]
    if k == "store":
        base = tt_eval(t[1], atoms)
        m = tt_eval(t[2], atoms)
        if not isinstance(m, bool):
            raise TTUnknown("store with a non-boolean index")
        return tt_eval(t[3], atoms) if m else base
    if k == "ifexp":
        return tt_eval(t[2], atoms) if tt_eval(t[1], atoms) else tt_eval(
            t[3], atoms)
    if k == "phi":
        vals = {repr(tt_eval(x, atoms)) for x in t[1]}
        if len(vals) == 1:
            return tt_eval(t[1][0], atoms)
        raise TTUnknown("phi with different point-wise values")
    raise TTUnknown(f"{k}: {show(t, 80)}")


class Sym:
    """Symbolic quantity known only through its ordering against another."""

    def __init__(self, name, rel=None):
        self.name = name
        self.rel = rel or {}  # other name -> '<' | '=' | '>'

    @staticmethod
    def compare(op, a, b):
        if isinstance(a, Sym) and isinstance(b, Sym):
            r = a.rel.get(b.name)
            if r is None:
                inv = b.rel.get(a.name)
                if inv is None:
                    raise TTUnknown(f"order of {a.name},{b.name} unknown")
                r = {"<": ">", ">": "<", "=": "="}[inv]
            return {"<": r == "<", "<=": r in "<=", ">": r == ">",
                    ">=": r in ">=", "==": r == "=", "!=": r != "="}[op]
        raise TTUnknown("comparison of a symbolic quantity with a constant")


def seq_elems(t):
    """Element terms of a list built by display, append, + and extend of
    displays; None when the construction is not recognised."""
    if t[0] in ("list", "tuple"):
        return list(t[1])
    if t[0] == "mut" and t[2] == "append" and len(t[3]) == 1:
        base = seq_elems(t[1])
        return None if base is None else base + [t[3][0]]
    if t[0] == "mut" and t[2] == "extend" and len(t[3]) == 1:
        base, more = seq_elems(t[1]), seq_elems(t[3][0])
        return None if base is None or more is None else base + more
    if t[0] == "bin" and t[1] == "+":
        a, b = seq_elems(t[2]), seq_elems(t[3])
        return None if a is None or b is None else a + b
    if t[0] == "call" and t[1] == "builtins.list" and len(t[2]) == 1:
        return seq_elems(t[2][0])
    return None


def map_term(t, fn):
    """Bottom-up rewrite of a term: fn is applied to every rebuilt node."""
    if isinstance(t, tuple):
        t = tuple(map_term(x, fn) for x in t)
        if t and isinstance(t[0], str):
            return fn(t)
    return t


def simp(t):
    """Sound read-after-write rewrites:
         store(b, k, v)[k]                -> v
         store(b, k, v)[k2]               -> b[k2]      (k, k2 distinct consts)
         mutsub(B, B[k], m, args)[k]      -> B[k]{.m(args)}
         x{.append(a)}[-1]                -> a
         [e0, e1, ...][i]                 -> ei
         {..., k: v, ...}[k]              -> v          (no ** after it)
    """
    def neg1(x):
        return x == ("const", -1) or x == ("un", "-", ("const", 1))

    def f(x):
        if x[0] != "sub" or not isinstance(x[1], tuple) or not x[1]:
            return x
        b, k = x[1], x[2]
        if b[0] == "store":
            if b[2] == k:
                return b[3]
            if b[2][0] == "const" and k[0] == "const" and b[2] != k:
                return f(("sub", b[1], k))
        if b[0] == "mutsub" and isinstance(b[2], tuple) and b[2] and \
                b[2][0] == "sub" and b[2][2] == k and \
                no_uids(b[2][1]) == no_uids(b[1]):
            return ("mut", b[2], b[3], b[4])
        if b[0] == "mut" and b[2] == "append" and len(b[3]) == 1 and neg1(k):
            return b[3][0]
        if b[0] == "list" and k[0] == "const" and isinstance(k[1], int) \
                and -len(b[1]) <= k[1] < len(b[1]):
            return b[1][k[1]]
        if b[0] == "dict" and len(b) == 3 and k[0] == "const":
            # display lookup: later entries win; a ** spread after the
            # entry could override it
            for kk, vv in reversed(list(zip(b[1], b[2]))):
                if kk[0] == "star":
                    break
                if kk == k:
                    return vv
        return x
    return map_term(t, f)


def select_ifexp(t, cond, outcome):
    """Resolve conditional expressions on ``cond`` (or ``not cond``)."""
    def f(x):
        if x[0] == "ifexp":
            c, neg = x[1], False
            while c[0] == "un" and c[1] == "not":
                c, neg = c[2], not neg
            if c == cond:
                return x[2] if (outcome != neg) else x[3]
        return x
    return map_term(t, f)


def callee_of(t):
    """(qualified callee name, positional args) of call / callv-by-name /
    module-attribute call terms; None otherwise."""
    if t[0] == "call":
        return t[1], list(t[2])
    if t[0] == "callv" and t[1][0] == "name":
        return t[1][1], list(t[2])
    if t[0] == "mcall" and t[1][0] == "name":
        return f"{t[1][1]}.{t[2]}", list(t[3])
    return None


def dict_from_zip(t):
    """(keys iterable, values iterable) of  dict(zip(A, B))  or
    {k: v for k, v in zip(A, B)}; None otherwise."""
    if t[0] == "call" and t[1] == "builtins.dict" and len(t[2]) == 1 and \
            not t[3]:
        z = t[2][0]
        if z[0] == "call" and z[1] == "builtins.zip" and len(z[2]) == 2:
            return z[2][0], z[2][1]
    if t[0] == "comp" and t[1] == "dict" and len(t[3]) == 1 and \
            not t[3][0][2]:
        z = t[3][0][1]
        if z[0] == "call" and z[1] == "builtins.zip" and len(z[2]) == 2 \
                and t[2] == ("tuple", (("zipelem", 0, z[2]),
                                       ("zipelem", 1, z[2]))):
            return z[2][0], z[2][1]
    return None


def fuse_comps(t):
    """[f(x) for x in [g(y) for y in Y]]  ->  [f(g(y)) for y in Y]  when the
    outer comprehension has one generator without conditions."""
    def f(x):
        if x[0] == "comp" and len(x[3]) == 1 and not x[3][0][2]:
            it = x[3][0][1]
            if isinstance(it, tuple) and it and it[0] == "comp" and \
                    it[1] in ("list", "gen", "tuple"):
                inner_elt = it[2]
                el = ("elem", it)
                new_elt = map_term(x[2], lambda y: inner_elt if y == el
                                   else y)
                if not any(y == el for y in _walk(new_elt)):
                    return ("comp", x[1], new_elt, it[3])
            # [F(a, b) for a, b in zip([fa(y) for y in Y], [fb(y) for y in
            # Y])]  ->  [F(fa(y), fb(y)) for y in Y]
            if isinstance(it, tuple) and it and it[0] == "call" and \
                    it[1] == "builtins.zip" and len(it[2]) >= 2 and \
                    not it[3] and all(
                        isinstance(c, tuple) and c and c[0] == "comp"
                        and c[1] in ("list", "gen", "tuple")
                        and len(c[3]) == 1 and not c[3][0][2]
                        for c in it[2]) and \
                    len({no_uids(c[3][0][1]) for c in it[2]}) == 1:
                parts = it[2]

                def sub(y):
                    if y[0] == "zipelem" and y[2] == parts and \
                            isinstance(y[1], int) and y[1] < len(parts):
                        return parts[y[1]][2]
                    return y
                new_elt = map_term(x[2], sub)
                left = [y for y in _walk(new_elt)
                        if isinstance(y, tuple) and y and (
                            (y[0] == "zipelem" and y[2] == parts)
                            or y == ("elem", it))]
                if not left:
                    return ("comp", x[1], new_elt, parts[0][3])
        return x
    return map_term(t, f)


def _walk(t):
    yield t
    if isinstance(t, tuple):
        for x in t:
            if isinstance(x, tuple):
                yield from _walk(x)


def concat_parts(t):
    """Flatten a + b + ... (any association), displays split into items:
    [('item', x) | ('splice', x)]."""
    if t[0] == "bin" and t[1] == "+":
        return concat_parts(t[2]) + concat_parts(t[3])
    if t[0] in ("list", "tuple"):
        return [("item", x) for x in t[1]]
    return [("splice", t)]


def bound_args(prog, t):
    """formal -> actual term for a resolved repo call term; None when the
    callee is unknown."""
    if t[0] != "call":
        return None
    f = prog.funcs.get(t[1]) or prog.funcs.get(t[1] + ".__init__")
    if f is None:
        return None
    ps = [p for p in f.params if not p.startswith("*")]
    if f.cls is not None and ps and ps[0] in ("self", "cls"):
        ps = ps[1:]
    out = dict(zip(ps, t[2]))
    out.update(dict(t[3]))
    return out


def norm_calls(prog, t):
    """Resolved repo calls in keyword-only form (formal -> actual, sorted),
    so positional and keyword spellings of one call compare equal."""
    def f(x):
        if x[0] == "call":
            b = bound_args(prog, x)
            if b is not None and len(b) == len(x[2]) + len(x[3]):
                return ("call", x[1], (), tuple(sorted(b.items())))
        return x
    return map_term(t, f)


def base_of(t):
    """Forget in-place growth: a phi between an object and mutated versions
    of the same object (mutsub / mut / rec alternatives) is that object."""
    def f(x):
        if x[0] == "phi":
            keep = [a for a in x[1] if not (isinstance(a, tuple) and a and
                                            a[0] in ("mutsub", "mut", "rec"))]
            if len(keep) == 1:
                return keep[0]
        return x
    return map_term(t, f)


def term_strings(t):
    """all string constants inside a term"""
    return [x[1] for x in _walk(t) if isinstance(x, tuple) and len(x) == 2
            and x[0] == "const" and isinstance(x[1], str)]


def positional(t):
    """(sequence term, constant index) of  seq[i]  /  unpacked item i"""
    if t[0] == "sub" and t[2][0] == "const" and isinstance(t[2][1], int):
        return t[1], t[2][1]
    if t[0] == "item" and isinstance(t[2], int):
        return t[1], t[2]
    return None


def mapped_over(prog, seq):
    """X when ``seq`` is  list(map(f, X))  or  [g(x, ...) for x in X]  with
    f / g taking the element as first argument; None otherwise."""
    if seq[0] == "call" and seq[1] == "builtins.list" and len(seq[2]) == 1:
        m = seq[2][0]
        if m[0] == "call" and m[1] == "builtins.map" and len(m[2]) == 2:
            return m[2][1]
        return mapped_over(prog, m)
    if seq[0] == "comp" and seq[1] in ("list", "gen", "tuple") and \
            len(seq[3]) == 1 and not seq[3][0][2]:
        x = seq[3][0][1]
        if any(y == ("elem", x) for y in _walk(seq[2])):
            return x
    return None


def literal_parts(t):
    """String literals that are spelled in a path / name expression itself
    (through / + f-strings, conditionals), not inside calls or elements."""
    if not isinstance(t, tuple) or not t:
        return []
    if t[0] == "const":
        return [t[1]] if isinstance(t[1], str) else []
    if t[0] == "bin":
        return literal_parts(t[2]) + literal_parts(t[3])
    if t[0] == "fstr":
        return [y for x in t[1] for y in literal_parts(x)]
    if t[0] == "ifexp":
        return literal_parts(t[2]) + literal_parts(t[3])
    if t[0] == "phi":
        return [y for x in t[1] for y in literal_parts(x)]
    if t[0] == "call" and t[1] in ("builtins.str", "pathlib.Path") and t[2]:
        return literal_parts(t[2][0])
    return []


class EvUnknown(Exception):
    pass


def ev_term(t, atoms):
    """Evaluate a scalar guard term over a valuation of its atoms
    (``atoms(term)`` returns the value or raises KeyError): constants,
    not / and / or, comparisons, + - * // %, unary minus, conditional
    expressions, len() of an atom.  Raises EvUnknown otherwise."""
    try:
        return atoms(t)
    except KeyError:
        pass
    k = t[0]
    if k == "const":
        return t[1]
    if k == "un":
        v = ev_term(t[2], atoms)
        if t[1] == "not":
            return not v
        if t[1] == "-":
            return -v
        if t[1] == "+":
            return v
    if k == "bool":
        vals = t[2]
        if t[1] == "and":
            r = True
            for x in vals:
                r = ev_term(x, atoms)
                if not r:
                    return r
            return r
        r = False
        for x in vals:
            r = ev_term(x, atoms)
            if r:
                return r
        return r
    if k == "cmp":
        a, b = ev_term(t[2], atoms), ev_term(t[3], atoms)
        ops = {"<": lambda: a < b, "<=": lambda: a <= b, ">": lambda: a > b,
               ">=": lambda: a >= b, "==": lambda: a == b,
               "!=": lambda: a != b, "is": lambda: a is b,
               "is not": lambda: a is not b, "in": lambda: a in b,
               "not in": lambda: a not in b}
        if t[1] in ops:
            return ops[t[1]]()
    if k == "bin":
        a, b = ev_term(t[2], atoms), ev_term(t[3], atoms)
        ops = {"+": lambda: a + b, "-": lambda: a - b, "*": lambda: a * b,
               "//": lambda: a // b, "%": lambda: a % b}
        if t[1] in ops:
            return ops[t[1]]()
    if k == "ifexp":
        return ev_term(t[2] if ev_term(t[1], atoms) else t[3], atoms)
    if k == "call" and t[1] in ("builtins.len", "builtins.bool",
                                "builtins.any", "builtins.all") and \
            len(t[2]) == 1 and not t[3]:
        v = ev_term(t[2][0], atoms)
        try:
            return {"builtins.len": len, "builtins.bool": bool,
                    "builtins.any": any, "builtins.all": all}[t[1]](v)
        except TypeError:
            raise EvUnknown(_tkey(t)[:120])
    raise EvUnknown(_tkey(t)[:120])


def seq_parts(t):
    """A list built by displays, +, append, comprehensions and append-loops
    as [('item', x) | ('each', element term, iterable term)]; None when not
    recognised."""
    if t[0] == "list":
        out = []
        for x in t[1]:
            if x[0] == "star":
                # [a, *xs, b]: the elements of xs in place
                inner = seq_parts(x[1]) if x[1][0] in (
                    "list", "comp", "bin", "mut", "phi") else None
                if inner is None and x[1][0] == "call" and x[1][1] in (
                        "builtins.list", "builtins.tuple") and \
                        len(x[1][2]) == 1:
                    inner = seq_parts(x[1][2][0])
                if inner is None:
                    return None
                out.extend(inner)
            else:
                out.append(("item", x))
        return out
    if t[0] == "bin" and t[1] == "+":
        a, b = seq_parts(t[2]), seq_parts(t[3])
        return None if a is None or b is None else a + b
    if t[0] == "comp" and t[1] in ("list", "gen") and len(t[3]) == 1 and \
            not t[3][0][2]:
        return [("each", t[2], t[3][0][1])]
    if t[0] == "mut" and t[2] == "append" and len(t[3]) == 1:
        base = seq_parts(t[1])
        return None if base is None else base + [("item", t[3][0])]
    if t[0] == "phi" and len(t[1]) == 2:
        # A | (A | <loop>){.append(x)}  : zero or more appends in a loop
        a, m = t[1]
        if m[0] == "mut" and m[2] == "append" and len(m[3]) == 1 and \
                m[1][0] == "phi" and len(m[1][1]) == 2 and \
                m[1][1][0] == a and m[1][1][1][0] == "rec":
            base = seq_parts(a)
            x = m[3][0]
            its = set(_outer_elems(x))
            if base is not None and len(its) == 1:
                return base + [("each", x, next(iter(its)))]
    return None


def no_uids(t):
    """('var', name, uids) -> ('var', name): the same variable read at two
    program points compares equal."""
    return map_term(t, lambda x: x[:2] if x[0] == "var" else x)


def subst_params(t, mapping):
    """Replace ('param', p) / ('lparam', p) by mapping[p]."""
    def f(x):
        if x[0] in ("param",) and x[1] in mapping:
            return mapping[x[1]]
        return x
    return map_term(t, f)


def _outer_elems(t, _bound=frozenset()):
    """iterables of the elem(...) terms of t that are not nested inside
    another elem's iterable and are not the loop variables of a
    comprehension inside t"""
    if not isinstance(t, tuple) or not t:
        return
    if t[0] in ("elem", "idx") and len(t) == 2:
        if t[1] not in _bound:
            yield t[1]
        return
    if t[0] == "comp" and len(t) >= 4 and isinstance(t[3], tuple):
        b = set(_bound)
        for g in t[3]:
            if isinstance(g, tuple) and len(g) >= 2:
                yield from _outer_elems(g[1], frozenset(b))
                b.add(g[1])
                for c in (g[2] if len(g) > 2 else ()):
                    yield from _outer_elems(c, frozenset(b))
        yield from _outer_elems(t[2], frozenset(b))
        return
    for x in t:
        if isinstance(x, tuple):
            yield from _outer_elems(x, _bound)


def apply_partials(t):
    """(functools.partial(f, *a, **k))(*b, **l)  ->  f(*a, *b, **k, **l)"""
    def f(x):
        if x[0] == "callv" and isinstance(x[1], tuple) and x[1] and \
                x[1][0] == "call" and x[1][1] == "functools.partial" and \
                x[1][2] and x[1][2][0][0] in ("name", "free"):
            fn = x[1][2][0][1]
            return ("call", fn, tuple(x[1][2][1:]) + tuple(x[2]),
                    tuple(x[1][3]) + tuple(x[3]))
        return x
    return map_term(t, f)


def text_parts(t):
    """Pieces of a string built by  sep.join([a, b, ...]), an f-string or
    +, flattened recursively; adjacent constant pieces are merged.  A term
    that is none of these is a single piece."""
    def rec(x):
        if x[0] == "mcall" and x[2] == "join" and x[1][0] == "const" and \
                len(x[3]) == 1 and x[3][0][0] in ("list", "tuple"):
            out = []
            for i, y in enumerate(x[3][0][1]):
                if i and x[1][1] != "":
                    out.append(x[1])
                out.extend(rec(y))
            return out
        if x[0] == "fstr":
            return [z for y in x[1] for z in rec(y)]
        if x[0] == "bin" and x[1] == "+":
            return rec(x[2]) + rec(x[3])
        # "a%sb" % v  /  "a%sb%s" % (v, w): only plain %s placeholders
        if x[0] == "bin" and x[1] == "%" and x[2][0] == "const" and \
                isinstance(x[2][1], str):
            fmt = x[2][1]
            args = list(x[3][1]) if x[3][0] == "tuple" else [x[3]]
            pieces = fmt.split("%s")
            if len(pieces) == len(args) + 1 and "%" not in "".join(pieces):
                out = []
                for i, lit in enumerate(pieces):
                    if lit:
                        out.append(("const", lit))
                    if i < len(args):
                        out.extend(rec(args[i]))
                return out
        # "a{}b".format(v): only plain {} placeholders, positional
        if x[0] == "mcall" and x[2] == "format" and x[1][0] == "const" and \
                isinstance(x[1][1], str) and not x[4]:
            fmt = x[1][1]
            pieces = fmt.split("{}")
            if len(pieces) == len(x[3]) + 1 and "{" not in "".join(pieces) \
                    and "}" not in "".join(pieces):
                out = []
                for i, lit in enumerate(pieces):
                    if lit:
                        out.append(("const", lit))
                    if i < len(x[3]):
                        out.extend(rec(x[3][i]))
                return out
        return [x]
    merged = []
    for x in rec(t):
        if x == ("const", ""):
            continue
        if merged and x[0] == "const" and merged[-1][0] == "const" and \
                isinstance(x[1], str) and isinstance(merged[-1][1], str):
            merged[-1] = ("const", merged[-1][1] + x[1])
        else:
            merged.append(x)
    return merged


def unmap(t):
    """elem(map(f, X))  ->  f(elem(X))   (f a named function); the same for
    the comprehension spelling of the map"""
    def f(x):
        if x[0] == "elem" and isinstance(x[1], tuple) and x[1] and \
                x[1][0] == "call" and x[1][1] == "builtins.map" and \
                len(x[1][2]) == 2 and x[1][2][0][0] in ("name", "free"):
            return ("call", x[1][2][0][1], (("elem", x[1][2][1]),), ())
        # the element of [f(y) for y in X] / (f(y) for y in X) is f(elem(X))
        if x[0] == "elem" and isinstance(x[1], tuple) and x[1] and \
                x[1][0] == "comp" and x[1][1] in ("list", "gen") and \
                len(x[1][3]) == 1 and not x[1][3][0][2]:
            return x[1][2]
        return x
    return map_term(t, f)


def items_as_subs(t):
    """('item', x, i) -> x[i]: unpacked elements and indexed elements of a
    record compare equal"""
    return map_term(t, lambda x: ("sub", x[1], ("const", x[2]))
                    if x[0] == "item" and isinstance(x[2], int) else x)


def flat_text(t):
    return text_parts(t)


def seq_concat(t):
    """Pieces of a list concatenation in any spelling: a + [x] + b and
    [*a, x, *b] both give [('splice', a), ('item', x), ('splice', b)];
    splices that are themselves concatenations / displays are flattened,
    empty displays vanish."""
    out = []
    for k, x in concat_parts(t):
        if k == "item" and x[0] == "star":
            k, x = "splice", x[1]
        if k == "splice" and (x[0] in ("list", "tuple") or (
                x[0] == "bin" and x[1] == "+")):
            out.extend(seq_concat(x))
        else:
            out.append((k, x))
    return out

def merge_fstr(t):
    """Strings built from pieces - f-strings, +, "%s" %, "{}".format, join -
    as one f-string term with adjacent constant pieces merged
    (f"*.{'x'}." -> '*.x.'; "*.{}.".format('x') -> '*.x.'), so literal
    file-name patterns can be read off"""
    def is_text(x):
        return (x[0] == "const" and isinstance(x[1], str)) or x[0] == "fstr"

    def f(x):
        built = x[0] == "fstr" or (
            x[0] == "mcall" and x[2] in ("format", "join")
            and x[1][0] == "const" and isinstance(x[1][1], str)) or (
            x[0] == "bin" and x[1] == "%" and is_text(x[2])) or (
            x[0] == "bin" and x[1] == "+" and (is_text(x[2])
                                               or is_text(x[3])))
        if not built:
            return x
        parts = text_parts(x)
        if parts == [x]:
            return x
        if len(parts) == 1 and parts[0][0] == "const":
            return parts[0]
        return ("fstr", tuple(parts))
    return map_term(t, f)


def expand_const_comp(t):
    """[f(k) for k in ("a", "b")]  ->  [f("a"), f("b")]"""
    def f(x):
        if x[0] == "comp" and x[1] in ("list", "tuple", "gen") and \
                len(x[3]) == 1 and not x[3][0][2]:
            it = x[3][0][1]
            if it[0] in ("tuple", "list") and it[1]:
                el = ("elem", it)
                return ("list", tuple(
                    map_term(x[2], lambda z, c=c: c if z == el else z)
                    for c in it[1]))
        if x[0] == "comp" and x[1] == "dict" and len(x[3]) == 1 and \
                not x[3][0][2] and x[2][0] == "tuple" and len(x[2][1]) == 2:
            # {k(c): v(c) for c in (a, b)}  ->  {k(a): v(a), k(b): v(b)}
            it = x[3][0][1]
            if it[0] in ("tuple", "list") and it[1] and all(
                    c[0] == "const" for c in it[1]):
                el = ("elem", it)
                ks, vs = [], []
                for c in it[1]:
                    ks.append(map_term(x[2][1][0],
                                       lambda z, c=c: c if z == el else z))
                    vs.append(map_term(x[2][1][1],
                                       lambda z, c=c: c if z == el else z))
                return ("dict", tuple(ks), tuple(vs))
        return x
    return merge_fstr(map_term(t, f))


def strip_materialise(t):
    """list(zip(...)) / tuple(map(...)) / list(enumerate(...)) -> the lazy
    sequence itself (same elements in the same order)"""
    def f(x):
        if x[0] == "call" and x[1] in ("builtins.list", "builtins.tuple") \
                and len(x[2]) == 1 and not x[3] and x[2][0][0] == "call" \
                and x[2][0][1] in ("builtins.zip", "builtins.map",
                                   "builtins.enumerate", "builtins.range"):
            return x[2][0]
        return x
    return map_term(t, f)


_FLIP = {"in": "not in", "not in": "in", "is": "is not", "is not": "is",
         "==": "!=", "!=": "==", "<": ">=", ">=": "<", ">": "<=", "<=": ">"}


def norm_logic(t):
    """not (a OP b) -> a OP' b ;  filter(lambda p: C, X) -> (x for x in X if
    C[x]) ; used to compare differently spelled selections"""
    def f(x):
        if x[0] == "un" and x[1] == "not" and isinstance(x[2], tuple) and \
                x[2] and x[2][0] == "cmp" and x[2][1] in _FLIP:
            return ("cmp", _FLIP[x[2][1]], x[2][2], x[2][3])
        if x[0] == "call" and x[1] == "builtins.filter" and \
                len(x[2]) == 2 and x[2][0][0] == "lambda" and \
                len(x[2][0][1]) == 1:
            p_, body, src = x[2][0][1][0], x[2][0][2], x[2][1]
            el = ("elem", src)
            cond = map_term(body, lambda z: el if z == ("lparam", p_) else z)
            cond = f(cond) if cond[0] == "un" else cond
            return ("comp", "gen", el, (((p_,), src, (cond,)),))
        return x
    return map_term(t, f)


def normalise(t):
    """The standard normal form used before structural comparison."""
    return simp(items_as_subs(expand_const_comp(fuse_comps(norm_logic(t)))))


def module_constants(prog, t):
    """Replace references to module-level names that are bound once, to a
    literal constant, by that constant."""
    import ast as _ast

    def f(x):
        if x[0] == "name" and isinstance(x[1], str) and "." in x[1]:
            mod, _, nm = x[1].rpartition(".")
            m = prog.modules.get(mod)
            if m is not None:
                v = m.assigns.get(nm)
                stores = sum(1 for n in _ast.walk(m.tree)
                             if isinstance(n, _ast.Name) and n.id == nm
                             and isinstance(n.ctx, _ast.Store))
                if isinstance(v, _ast.Constant) and stores == 1:
                    return ("const", v.value)
        return x
    return map_term(t, f)


def one_to_one(t, _depth=0):
    """The sequence S such that the container / stream ``t`` has exactly one
    entry per element of S, in S's order, with nothing filtered out - seen
    through comprehensions without conditions, map(), enumerate(), zip()
    with a range or with a second one-to-one stream of the same base,
    dict() / list() / tuple() / iter() / sorted-free wrappers and the
    .items() / .values() / .keys() views.  None when not recognised.
    A base sequence is returned as it is (so ``one_to_one(x) == x`` for a
    parameter or variable)."""
    if _depth > 12:
        return None
    k = t[0]
    if k in ("param", "var", "attr", "name", "rec"):
        return t
    if k == "comp" and len(t[3]) == 1 and not t[3][0][2]:
        return one_to_one(t[3][0][1], _depth + 1)
    if k == "mcall" and t[2] in ("items", "values", "keys") and not t[3]:
        return one_to_one(t[1], _depth + 1)
    if k == "call":
        n, a = t[1], t[2]
        if n in ("builtins.list", "builtins.tuple", "builtins.iter",
                 "builtins.dict", "builtins.enumerate") and len(a) >= 1:
            return one_to_one(a[0], _depth + 1)
        if n == "builtins.map" and len(a) == 2:
            return one_to_one(a[1], _depth + 1)
        if n == "builtins.zip" and a:
            bases = []
            for x in a:
                if x[0] == "call" and x[1] in ("builtins.range",
                                              "itertools.count"):
                    continue
                bases.append(one_to_one(x, _depth + 1))
            if bases and all(b is not None and b == bases[0] for b in bases):
                return bases[0]
            return None
        return t        # any other call result is a base sequence itself
    if k == "mcall":
        return t
    return None


def anon(t):
    """Forget the names of comprehension variables (the elements are
    referred to as elem(<iterable>) / idx(<iterable>) inside the term)."""
    def f(x):
        if x[0] == "comp" and len(x) >= 4 and isinstance(x[3], tuple):
            return (x[0], x[1], x[2], tuple(
                ((),) + tuple(g[1:]) if isinstance(g, tuple) and g else g
                for g in x[3]))
        return x
    return map_term(t, f)


def flattened_of(t):
    """X when ``t`` is the concatenation, in order, of the lists in X:
    sum(X, []), utils.flatten(X), list(itertools.chain.from_iterable(X)) /
    chain(*X), np.concatenate(X) / np.hstack(X), [y for x in X for y in x];
    None otherwise."""
    while t[0] == "call" and t[1] in ("builtins.list", "builtins.tuple") \
            and len(t[2]) == 1 and not t[3]:
        t = t[2][0]
    while t[0] == "mcall" and t[2] == "tolist" and not t[3]:
        t = t[1]
    if t[0] == "call":
        n, a = t[1], t[2]
        if n == "builtins.sum" and len(a) == 2 and a[1] == ("list", ()):
            return a[0]
        if n == "builtins.sum" and len(a) == 1 and \
                dict(t[3]).get("start") == ("list", ()):
            return a[0]
        if n in ("mokapot.utils.flatten", "numpy.concatenate",
                 "numpy.hstack", "itertools.chain.from_iterable") and \
                len(a) == 1:
            return a[0]
        if n == "itertools.chain" and len(a) == 1 and a[0][0] == "star":
            return a[0][1]
    if t[0] == "comp" and t[1] in ("list", "gen") and len(t[3]) == 2 and \
            not t[3][0][2] and not t[3][1][2]:
        outer, inner = t[3][0][1], t[3][1][1]
        if inner == ("elem", outer) and t[2] == ("elem", inner):
            return outer
    return None


def bound_margs(prog, t):
    """formal -> actual term for a method-call term whose method name has
    one signature in the package (see Terms._canon_mcall); positional and
    keyword spellings give the same mapping.  None when the method is not a
    repository method or the name is ambiguous."""
    import ast as _ast
    if t[0] != "mcall":
        return None
    try:
        cands = [g for g in prog.methods_named(t[2])
                 if not isinstance(g.node, _ast.Lambda)
                 and g.params[:1] == ["self"]]
    except Exception:  # noqa: BLE001
        return None
    if not cands or len({tuple(g.params) for g in cands}) != 1:
        return None
    ps = [p for p in cands[0].params[1:] if not p.startswith("*")]
    out = dict(zip(ps, t[3]))
    out.update(dict(t[4]))
    return out


def strlen_lin(t):
    """Length of a text term as a linear form: literals count their
    characters, concatenations and f-strings add up, anything else X
    contributes the atom len(X).  ``len(a + "[" + b)`` and
    ``2 + len(a) + len(b) - 1`` can then be compared exactly."""
    out = Lin({}, 0)
    for part in text_parts(t):
        if part[0] == "const" and isinstance(part[1], str):
            out = out + Lin({}, len(part[1]))
        else:
            out = out + lin(("call", "builtins.len", (part,), ()))
    return out


def lin_with_lengths(t):
    """lin(t) with every len(<text>) atom expanded by strlen_lin"""
    base = lin(t)
    out = Lin({}, base.const)
    for k, c in base.atoms.items():
        a = base.terms[k]
        if a[0] == "call" and a[1] == "builtins.len" and len(a[2]) == 1 and \
                a[2][0][0] in ("bin", "fstr", "const"):
            out = out + strlen_lin(a[2][0]).scale(c)
        else:
            one = Lin({k: c}, 0)
            one.terms = {k: a}
            out = out + one
    return out


_PANDAS_FORMS = {"pandas.isna": "isna", "pandas.isnull": "isna",
                 "pandas.notna": "notna", "pandas.notnull": "notna"}
_PANDAS_METHODS = {"isnull": "isna", "notnull": "notna"}


def method_forms(t):
    """pd.isna(x) / pd.isnull(x) / x.isnull()  ->  x.isna()  (and the notna
    family): one spelling for the same element-wise test."""
    def f(x):
        if x[0] == "call" and x[1] in _PANDAS_FORMS and len(x[2]) == 1 and \
                not x[3]:
            return ("mcall", x[2][0], _PANDAS_FORMS[x[1]], (), ())
        if x[0] == "mcall" and x[2] in _PANDAS_METHODS and not x[3] and \
                not x[4]:
            return ("mcall", x[1], _PANDAS_METHODS[x[2]], (), ())
        return x
    return map_term(t, f)


def expand_helpers(prog, t, names=None, _depth=0):
    """Replace calls of small repository functions that consist of a single
    ``return <expression>`` by that expression (parameters substituted by
    the arguments): a call and its hand-inlined body become the same term.
    ``names``: restrict to these qualified names."""
    if _depth > 4:
        return t
    from .defuse import DefUse, Terms

    def f(x):
        if x[0] != "call" or x[1] not in prog.funcs or (
                names is not None and x[1] not in names):
            return x
        g = prog.funcs[x[1]]
        import ast as _ast
        if isinstance(g.node, _ast.Lambda):
            return x
        body = [s_ for s_ in g.node.body if not (
            isinstance(s_, _ast.Expr) and isinstance(
                s_.value, _ast.Constant))]
        if len(body) != 1 or not isinstance(body[0], _ast.Return) or \
                body[0].value is None:
            return x
        b = bound_args(prog, x)
        if b is None:
            return x
        ps = [p_ for p_ in g.params if not p_.startswith("*")]
        if any(p_ not in b for p_ in ps if p_ not in g.defaults()):
            return x
        rt = Terms(DefUse(prog, g)).returns()
        if len(rt) != 1:
            return x
        mapping = {}
        for p_ in ps:
            if p_ in b:
                mapping[p_] = b[p_]
            else:
                d = g.defaults()[p_]
                if isinstance(d, _ast.Constant):
                    mapping[p_] = ("const", d.value)
                else:
                    return x
        return expand_helpers(prog, subst_params(rt[0][1], mapping), names,
                              _depth + 1)
    return map_term(t, f)


POS = ("POS",)


def align_positions(t):
    """Within one loop pass, make the ways of addressing "the current
    element" comparable: zip-element i of (A, B, ..) is A[POS] / B[POS],
    the element of enumerate(X) / X is X[POS] and its index is POS.  Only
    the outermost element references are rewritten (the iterables
    themselves are left as they are)."""
    if not isinstance(t, tuple) or not t:
        return t
    if t[0] == "zipelem" and len(t) == 3 and isinstance(t[1], int) and \
            t[1] < len(t[2]):
        out = ("sub", t[2][t[1]], POS)
    elif t[0] == "elem" and len(t) == 2:
        it = t[1]
        if it[0] == "call" and it[1] == "builtins.enumerate" and it[2]:
            it = it[2][0]
        out = ("sub", it, POS)
    elif t[0] == "idx" and len(t) == 2:
        return POS
    else:
        out = tuple(align_positions(x) if isinstance(x, tuple) else x
                    for x in t)
    # range(n)[POS] is POS; range(a, b)[POS] is a + POS  (also list(range))
    if out[0] == "sub" and len(out) == 3 and out[2] == POS:
        r = out[1]
        while r[0] == "call" and r[1] in ("builtins.list",
                                          "builtins.tuple") and \
                len(r[2]) == 1 and not r[3]:
            r = r[2][0]
        if r[0] == "call" and r[1] == "builtins.range" and not r[3]:
            if len(r[2]) == 1:
                return POS
            if len(r[2]) == 2:
                return ("bin", "+", r[2][0], POS)
    return out


def data_elem(it):
    """The data element a ``for`` loop over iterable term ``it`` visits:
    ``elem(it)``, looking through ``enumerate(x, start)`` (the counter is not
    data)."""
    while it[0] == "call" and it[1] == "builtins.enumerate" and it[2]:
        it = it[2][0]
    return ("elem", it)


def elem_of(it):
    """The term a loop variable over iterable term ``it`` denotes (the
    engine's own convention: elem(it), or the position idx(S) for
    range(len(S)))."""
    from .defuse import _elem_term
    return _elem_term(it)
