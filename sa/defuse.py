"""Reaching definitions (syntax directed), def-use chains, flag specialisation
and reconstruction of values as canonical *terms*.

A term is a nested tuple; the first element is the kind:

  ('param', name)                  function parameter
  ('const', value)
  ('name', dotted)                 resolved global / imported name
  ('free', name)                   unresolved free name
  ('call', dotted, args, kwargs)   call of a resolved function
  ('mcall', base, attr, args, kwargs)  method call on a local value
  ('attr', base, attr)
  ('sub', base, index)
  ('slice', lo, hi, step)
  ('bin', op, l, r) ('un', op, x) ('cmp', op, l, r) ('bool', op, xs)
  ('tuple', xs) ('list', xs) ('set', xs) ('dict', ks, vs)
  ('ifexp', c, a, b)
  ('phi', xs)                      several reaching definitions
  ('rec', name)                    loop-carried reference (cycle)
  ('store', prev, index, value)    value after  x[index] = value
  ('setattr', prev, attr, value)   value after  x.attr = value
  ('mut', prev, method, args, kwargs)  value after in-place x.method(...)
  ('elem', iterable)               element of an iterable (loop variable)
  ('idx', iterable)                enumerate index of an iterable
  ('zipelem', i, iterables)        i-th component of a zip(...) element
  ('item', x, i)                   i-th component of tuple-valued x
  ('comp', kind, elt, gens)        comprehension; gens = ((target_names, iter, conds),..)
  ('lambda', params, body)
  ('with', ctx)
  ('fstr', parts)
  ('star', x)
  ('deleted', name)
  ('unknown', text)
kwargs are tuples of (name, term) sorted by name.
"""

from __future__ import annotations

import ast
import os
import copy

from .core import Func, Program, norm_src

MUTATORS = {
    "append", "extend", "add", "remove", "pop", "sort", "update", "insert",
    "clear", "discard", "setdefault", "reverse", "popitem", "shuffle",
}
INPLACE_KW_METHODS = {"drop", "sort_values", "rename", "reset_index",
                      "drop_duplicates", "fillna", "set_index"}


# leading positional parameters of library functions whose arguments the
# rules inspect (NumPy / pandas public API; stable across the versions the
# package supports)
EXTERNAL_SIGS = {
    "numpy.apply_along_axis": ("func1d", "axis", "arr"),
    "numpy.interp": ("x", "xp", "fp"),
    "numpy.concatenate": ("arrays", "axis"),
    "numpy.hstack": ("tup",),
    "numpy.argsort": ("a", "axis", "kind"),
    "numpy.sort": ("a", "axis", "kind"),
    "numpy.searchsorted": ("a", "v", "side"),
    "numpy.split": ("ary", "indices_or_sections", "axis"),
    "numpy.unique": ("ar",),
    "numpy.clip": ("a", "a_min", "a_max"),
    "numpy.linspace": ("start", "stop", "num"),
    "numpy.histogram": ("a", "bins"),
    "numpy.divide": ("x1", "x2"),
    "numpy.flip": ("m", "axis"),
    "numpy.cumsum": ("a", "axis"),
    "numpy.where": ("condition", "x", "y"),
    "numpy.full": ("shape", "fill_value"),
    "numpy.append": ("arr", "values", "axis"),
    "numpy.delete": ("arr", "obj", "axis"),
    "numpy.logical_and": ("x1", "x2"),
    "numpy.logical_or": ("x1", "x2"),
    "numpy.maximum": ("x1", "x2"),
    "numpy.minimum": ("x1", "x2"),
    "numpy.polyfit": ("x", "y", "deg"),
    "pandas.concat": ("objs",),
    "scipy.optimize.nnls": ("A", "b"),
}


class Def:
    __slots__ = ("name", "kind", "node", "value", "extra", "uid")
    _n = 0

    def __init__(self, name, kind, node=None, value=None, extra=None):
        self.name = name
        self.kind = kind
        self.node = node
        self.value = value
        self.extra = extra
        Def._n += 1
        self.uid = Def._n

    @property
    def lineno(self):
        return getattr(self.node, "lineno", 0)

    def __repr__(self):
        return f"<Def {self.name}:{self.kind}@{self.lineno}>"


EMPTY = frozenset()


def _merge(a, b):
    if a is None:
        return b
    if b is None:
        return a
    out = dict(a)
    for k, v in b.items():
        if k in out:
            if out[k] is not v:
                out[k] = out[k] | v
        else:
            out[k] = v | frozenset({_UNDEF})
    for k in a:
        if k not in b:
            out[k] = a[k] | frozenset({_UNDEF})
    return out


_UNDEF = Def("<undef>", "undef")


def _env_eq(a, b):
    if a is None or b is None:
        return a is b
    if a.keys() != b.keys():
        return False
    return all(a[k] == b[k] for k in a)


# ------------------------------------------------------------ specialisation
def _static_truth(test, env):
    """Evaluate a test under ``env`` (name -> python constant).  Returns
    True / False / None (unknown)."""
    if isinstance(test, ast.Constant):
        return bool(test.value)
    if isinstance(test, ast.Name) and test.id in env:
        if type(env[test.id]).__name__ == "NotNone":
            return None  # truthiness of an array is not a flag
        return bool(env[test.id])
    if isinstance(test, ast.Attribute) and isinstance(test.value, ast.Name):
        key = f"{test.value.id}.{test.attr}"
        if key in env:
            return bool(env[key])
    if isinstance(test, ast.UnaryOp) and isinstance(test.op, ast.Not):
        v = _static_truth(test.operand, env)
        return None if v is None else (not v)
    if isinstance(test, ast.BoolOp):
        vals = [_static_truth(v, env) for v in test.values]
        if isinstance(test.op, ast.And):
            if any(v is False for v in vals):
                return False
            if all(v is True for v in vals):
                return True
        else:
            if any(v is True for v in vals):
                return True
            if all(v is False for v in vals):
                return False
        return None
    if isinstance(test, ast.Compare) and len(test.ops) == 1:
        left, right = test.left, test.comparators[0]

        def val(e):
            if isinstance(e, ast.Constant):
                return (True, e.value)
            if isinstance(e, ast.Name) and e.id in env:
                return (True, env[e.id])
            if isinstance(e, ast.Attribute) and isinstance(e.value, ast.Name):
                key = f"{e.value.id}.{e.attr}"
                if key in env:
                    return (True, env[key])
            return (False, None)

        lk, lv = val(left)
        rk, rv = val(right)
        if lk and rk:
            op = test.ops[0]
            if isinstance(op, (ast.Is, ast.Eq)):
                return lv is rv if isinstance(op, ast.Is) else lv == rv
            if isinstance(op, (ast.IsNot, ast.NotEq)):
                return lv is not rv if isinstance(op, ast.IsNot) else lv != rv
    return None


def _stores_in(node) -> set[str]:
    out = set()
    for n in ast.walk(node):
        if isinstance(n, ast.Name) and isinstance(n.ctx, (ast.Store, ast.Del)):
            out.add(n.id)
        elif isinstance(n, ast.Attribute) and isinstance(
                n.ctx, ast.Store) and isinstance(n.value, ast.Name):
            out.add(f"{n.value.id}.{n.attr}")
    return out


class _ExprSpecialiser(ast.NodeTransformer):
    def __init__(self, env):
        self.env = env

    def visit_IfExp(self, node):
        t = _static_truth(node.test, self.env)
        if t is True:
            return self.visit(node.body)
        if t is False:
            return self.visit(node.orelse)
        return self.generic_visit(node)

    def visit_Lambda(self, node):
        return node


class _Specialiser:
    """Prunes branches decided by ``env``.  A name stops being a known flag
    as soon as it is (re)assigned; names assigned anywhere inside a loop are
    dropped before the loop is entered."""

    def __init__(self, env):
        self.env = dict(env)

    def block(self, stmts):
        out = []
        for st in stmts:
            out.extend(self.stmt(st))
        return out

    def _drop(self, names):
        for n in names:
            self.env.pop(n, None)

    def stmt(self, st):
        if isinstance(st, (ast.FunctionDef, ast.AsyncFunctionDef,
                           ast.ClassDef)):
            return [st]
        if isinstance(st, ast.If):
            t = _static_truth(st.test, self.env)
            if t is True:
                return self.block(st.body) or [
                    ast.copy_location(ast.Pass(), st)]
            if t is False:
                return self.block(st.orelse) or [
                    ast.copy_location(ast.Pass(), st)]
            st.test = _ExprSpecialiser(self.env).visit(st.test)
            env0 = dict(self.env)
            st.body = self.block(st.body) or [ast.Pass()]
            env_a = self.env
            self.env = dict(env0)
            st.orelse = self.block(st.orelse)
            env_b = self.env
            self.env = {k: v for k, v in env_a.items()
                        if k in env_b and env_b[k] is v or
                        (k in env_b and env_b[k] == v)}
            return [st]
        if isinstance(st, (ast.For, ast.AsyncFor, ast.While)):
            self._drop(_stores_in(st))
            if isinstance(st, ast.While):
                st.test = _ExprSpecialiser(self.env).visit(st.test)
            else:
                st.iter = _ExprSpecialiser(self.env).visit(st.iter)
            st.body = self.block(st.body) or [ast.Pass()]
            st.orelse = self.block(st.orelse)
            return [st]
        if isinstance(st, (ast.With, ast.AsyncWith)):
            self._drop(_stores_in(ast.Module(
                body=[], type_ignores=[])) )
            for item in st.items:
                item.context_expr = _ExprSpecialiser(self.env).visit(
                    item.context_expr)
                if item.optional_vars is not None:
                    self._drop(_stores_in(item.optional_vars))
            st.body = self.block(st.body) or [ast.Pass()]
            return [st]
        if isinstance(st, ast.Try):
            self._drop(_stores_in(st))
            st.body = self.block(st.body) or [ast.Pass()]
            for h in st.handlers:
                h.body = self.block(h.body) or [ast.Pass()]
            st.orelse = self.block(st.orelse)
            st.finalbody = self.block(st.finalbody)
            return [st]
        new = _ExprSpecialiser(self.env).visit(st)
        self._drop(_stores_in(st))
        # alias = flag   /   alias = None / True / False: the new name is a
        # known flag as well (until it is assigned again)
        if isinstance(new, ast.Assign) and len(new.targets) == 1 and \
                isinstance(new.targets[0], ast.Name):
            v = new.value
            if isinstance(v, ast.Name) and v.id in self.env and \
                    v.id != new.targets[0].id:
                self.env[new.targets[0].id] = self.env[v.id]
            elif isinstance(v, ast.Constant) and (
                    v.value is None or isinstance(v.value, bool)):
                self.env[new.targets[0].id] = v.value
        return [new]


def specialise(fnode, env: dict):
    """Deep copy of the function with the branches decided by ``env``
    (name or 'obj.attr' -> constant) pruned."""
    new = copy.deepcopy(fnode)
    if isinstance(new, ast.Lambda):
        new.body = _ExprSpecialiser(env).visit(new.body)
        return new
    sp = _Specialiser(env)
    new.body = sp.block(new.body) or [ast.Pass()]
    ast.fix_missing_locations(new)
    return new


def is_never_reassigned(fnode, name: str) -> bool:
    for n in ast.walk(fnode):
        if isinstance(n, ast.Name) and n.id == name and isinstance(
            n.ctx, (ast.Store, ast.Del)
        ):
            return False
    return True


# --------------------------------------------------------------- reaching defs
class DefUse:
    """Reaching definitions for one function body."""

    def __init__(self, prog: Program, func: Func, fnode=None, outer=None):
        self.prog = prog
        self.func = func
        self.fnode = fnode if fnode is not None else func.node
        self.outer = outer  # DefUse of enclosing function (for closures)
        self.uses: dict[int, frozenset] = {}  # id(Name load) -> defs
        self.use_nodes: dict[int, ast.Name] = {}
        self.defs: list[Def] = []
        self.def_at: dict[int, list[Def]] = {}  # id(stmt) -> defs it creates
        self.env_before: dict[int, dict] = {}  # id(stmt) -> env (snapshot)
        self.env_after: dict[int, dict] = {}
        self.exit_envs = []
        self.unreachable: set[int] = set()
        self.attr_stores = []
        self._loops = []
        self._tries = []
        self._defcache: dict = {}
        env = {}
        a = self.fnode.args
        allargs = a.posonlyargs + a.args + a.kwonlyargs
        if a.vararg:
            allargs = allargs + [a.vararg]
        if a.kwarg:
            allargs = allargs + [a.kwarg]
        self.param_defs = {}
        for arg in allargs:
            d = self._mk(arg.arg, "param", arg)
            env[arg.arg] = frozenset({d})
            self.param_defs[arg.arg] = d
        if isinstance(self.fnode, ast.Lambda):
            self._expr(self.fnode.body, env)
            self.final_env = env
        else:
            self.final_env = self._block(self.fnode.body, env)

    # -- def bookkeeping (stable Def objects across fixpoint iterations)
    def _mk(self, name, kind, node, value=None, extra=None, slot=None):
        key = (name, kind, id(node), slot)
        d = self._defcache.get(key)
        if d is None:
            d = Def(name, kind, node, value, extra)
            self._defcache[key] = d
            self.defs.append(d)
        else:
            # refresh prev-def links (they only grow)
            if extra is not None and d.extra is not None and \
                    isinstance(extra, dict) and "prev" in extra:
                old = d.extra.get("prev", EMPTY)
                extra = dict(extra)
                extra["prev"] = old | extra["prev"]
                d.extra = extra
        return d

    def _register(self, stmt, d):
        lst = self.def_at.setdefault(id(stmt), [])
        if d not in lst:
            lst.append(d)

    # -- expressions
    def _expr(self, e, env):
        if e is None:
            return
        if isinstance(e, ast.Name):
            if isinstance(e.ctx, ast.Load):
                ds = env.get(e.id, EMPTY)
                prev = self.uses.get(id(e), EMPTY)
                self.uses[id(e)] = prev | ds
                self.use_nodes[id(e)] = e
            return
        if isinstance(e, ast.Attribute) and isinstance(e.value, ast.Name) \
                and isinstance(e.ctx, ast.Load):
            key = f"{e.value.id}.{e.attr}"
            if key in env:
                self.uses[id(e)] = self.uses.get(id(e), EMPTY) | env[key]
        if isinstance(e, (ast.ListComp, ast.SetComp, ast.GeneratorExp,
                          ast.DictComp)):
            cenv = dict(env)
            for gi, gen in enumerate(e.generators):
                self._expr(gen.iter, cenv)
                self._bind_target(gen.target, gen.iter, cenv, "comp", e,
                                  slot=gi)
                for c in gen.ifs:
                    self._expr(c, cenv)
            if isinstance(e, ast.DictComp):
                self._expr(e.key, cenv)
                self._expr(e.value, cenv)
            else:
                self._expr(e.elt, cenv)
            return
        if isinstance(e, ast.Lambda):
            lenv = dict(env)
            a = e.args
            for arg in a.posonlyargs + a.args + a.kwonlyargs:
                lenv[arg.arg] = frozenset(
                    {self._mk(arg.arg, "lparam", arg)}
                )
            for d in a.defaults + [k for k in a.kw_defaults if k]:
                self._expr(d, env)
            self._expr(e.body, lenv)
            return
        if isinstance(e, ast.NamedExpr):
            self._expr(e.value, env)
            d = self._mk(e.target.id, "assign", e, e.value)
            env[e.target.id] = frozenset({d})
            return
        for ch in ast.iter_child_nodes(e):
            if isinstance(ch, ast.expr):
                self._expr(ch, env)
            elif isinstance(ch, (ast.keyword,)):
                self._expr(ch.value, env)
            elif isinstance(ch, ast.comprehension):  # pragma: no cover
                pass
            elif isinstance(ch, (ast.slice if hasattr(ast, "slice") else ())):
                pass

    def _bind_target(self, target, value, env, kind, stmt, path=(), slot=None):
        if isinstance(target, ast.Name):
            d = self._mk(target.id, kind, stmt, value,
                         {"path": path} if path else None,
                         slot=(slot, path, target.id))
            env[target.id] = frozenset({d})
            # a re-bound name no longer has the attribute values recorded
            # for the previous object
            pre = target.id + "."
            for k in [k for k in env if k.startswith(pre)]:
                del env[k]
            self._register(stmt, d)
        elif isinstance(target, (ast.Tuple, ast.List)):
            for i, t in enumerate(target.elts):
                if isinstance(t, ast.Starred):
                    self._bind_target(t.value, value, env, kind, stmt,
                                      path + (("star", i),), slot)
                else:
                    self._bind_target(t, value, env, kind, stmt,
                                      path + (i,), slot)
        elif isinstance(target, ast.Subscript):
            self._expr(target.value, env)
            self._expr(target.slice, env)
            root = target.value
            if isinstance(root, ast.Name):
                prev = env.get(root.id, EMPTY)
                d = self._mk(root.id, "store", stmt, value,
                             {"index": target.slice, "prev": prev,
                              "path": path},
                             slot=(slot, path, "store"))
                env[root.id] = frozenset({d})
                self._register(stmt, d)
        elif isinstance(target, ast.Attribute):
            self._expr(target.value, env)
            root = target.value
            if isinstance(root, ast.Name):
                key = f"{root.id}.{target.attr}"
                d = self._mk(key, "assign", stmt, value,
                             {"path": path} if path else None,
                             slot=(slot, path, "setattr", target.attr))
                env[key] = frozenset({d})
                self._register(stmt, d)
                rec = (root.id, target.attr, value, stmt)
                if not any(r[3] is stmt and r[1] == target.attr
                           for r in self.attr_stores):
                    self.attr_stores.append(rec)
        elif isinstance(target, ast.Starred):
            self._bind_target(target.value, value, env, kind, stmt, path, slot)

    def _mutations(self, e, env, stmt):
        """In-place method calls on local names anywhere inside ``e``."""
        for node in ast.walk(e):
            if isinstance(node, ast.Call) and isinstance(
                node.func, ast.Attribute
            ) and isinstance(node.func.value, ast.Name):
                meth = node.func.attr
                inplace = meth in MUTATORS or (
                    meth in INPLACE_KW_METHODS and any(
                        kw.arg == "inplace" and isinstance(
                            kw.value, ast.Constant) and kw.value.value is True
                        for kw in node.keywords)
                )
                if inplace:
                    name = node.func.value.id
                    if name not in env:
                        continue
                    prev = env.get(name, EMPTY)
                    d = self._mk(name, "mut", stmt, node,
                                 {"method": meth, "prev": prev},
                                 slot=("mut", id(node)))
                    env[name] = frozenset({d})
                    self._register(stmt, d)
                    # the name may be a local alias of an element of
                    # another local container (a = xs[k]; a.append(v)):
                    # that container changes as well
                    al = self._alias_of(prev, env)
                    if al is not None:
                        base, recv = al
                        bprev = env.get(base, EMPTY)
                        ex2 = {"method": meth, "prev": bprev}
                        if recv is not None:
                            ex2["receiver"] = recv
                        d2 = self._mk(base, "mut", stmt, node, ex2,
                                      slot=("mutalias", id(node)))
                        env[base] = frozenset({d2})
                        self._register(stmt, d2)
            # subscripted receivers:  x[k].append(v)  /  x[k] += ...
            elif isinstance(node, ast.Call) and isinstance(
                node.func, ast.Attribute
            ) and node.func.attr in MUTATORS:
                root = node.func.value
                depth = 0
                while isinstance(root, ast.Subscript):
                    root = root.value
                    depth += 1
                if depth and isinstance(root, ast.Name) and root.id in env:
                    prev = env.get(root.id, EMPTY)
                    d = self._mk(root.id, "mut", stmt, node,
                                 {"method": node.func.attr, "prev": prev,
                                  "receiver": node.func.value},
                                 slot=("mut", id(node)))
                    env[root.id] = frozenset({d})
                    self._register(stmt, d)

    def _alias_of(self, defs, env):
        """(container name, receiver expr) when every definition in
        ``defs`` - looking through in-place updates - is a plain assignment
        from one subscript ``xs[k]`` of a local container ``xs``."""
        seen, work, found = set(), list(defs), []
        while work:
            d = work.pop()
            if d is _UNDEF or id(d) in seen:
                continue
            seen.add(id(d))
            ex = d.extra or {}
            if d.kind in ("mut", "aug") and "prev" in ex and \
                    not ex.get("receiver"):
                work.extend(ex["prev"])
            elif d.kind == "assign" and not ex.get("path") and isinstance(
                    d.value, ast.Subscript):
                root = d.value
                while isinstance(root, ast.Subscript):
                    root = root.value
                if not isinstance(root, ast.Name) or root.id not in env:
                    return None
                found.append((root.id, d.value))
            elif d.kind == "for" and d.value is not None:
                # loop variable: the current element of a local container
                #   for a in xs / for i, a in enumerate(xs) /
                #   for a, b in zip(xs, ys)
                it = d.value
                path = tuple(ex.get("path") or ())
                cont = None
                if isinstance(it, ast.Name) and not path:
                    cont = it
                elif isinstance(it, ast.Call) and isinstance(
                        it.func, ast.Name) and not it.keywords:
                    if it.func.id == "enumerate" and path == (1,) and \
                            it.args:
                        cont = it.args[0]
                    elif it.func.id == "zip" and len(path) == 1 and \
                            isinstance(path[0], int) and \
                            path[0] < len(it.args):
                        cont = it.args[path[0]]
                if not isinstance(cont, ast.Name) or cont.id not in env:
                    return None
                found.append((cont.id, None))
            else:
                return None
        if found and len({b for b, _r in found}) == 1:
            return found[0]
        return None

    # -- statements
    def _snap(self, env):
        for acc in self._tries:
            acc.append(dict(env))

    def _block(self, stmts, env):
        for st in stmts:
            if env is None:
                # unreachable code after return/raise/break/continue
                for sub in ast.walk(st):
                    self.unreachable.add(id(sub))
                continue
            env = self._stmt(st, env)
        return env

    def _stmt(self, st, env):
        self.env_before[id(st)] = dict(env)
        out = self._stmt_inner(st, env)
        if out is not None:
            self.env_after[id(st)] = dict(out)
            self._snap(out)
        return out

    def _stmt_inner(self, st, env):
        if isinstance(st, ast.Assign):
            self._expr(st.value, env)
            self._mutations(st.value, env, st)
            for t in st.targets:
                self._bind_target(t, st.value, env, "assign", st,
                                  slot=id(t))
            return env
        if isinstance(st, ast.AnnAssign):
            if st.value is not None:
                self._expr(st.value, env)
                self._mutations(st.value, env, st)
                self._bind_target(st.target, st.value, env, "assign", st)
            return env
        if isinstance(st, ast.AugAssign):
            self._expr(st.value, env)
            t = st.target
            if isinstance(t, ast.Name):
                prev = env.get(t.id, EMPTY)
                ld = ast.Name(id=t.id, ctx=ast.Load())
                ast.copy_location(ld, t)
                self.uses[id(t)] = self.uses.get(id(t), EMPTY) | prev
                d = self._mk(t.id, "aug", st, st.value,
                             {"op": type(st.op).__name__, "prev": prev})
                env[t.id] = frozenset({d})
                self._register(st, d)
                # a += x on a local alias of xs[k] (in place for lists,
                # sets, dicts): xs changes as well
                if type(st.op).__name__ in ("Add", "BitOr", "BitAnd", "Sub",
                                            "BitXor"):
                    al = self._alias_of(prev, env)
                    if al is not None:
                        base, recv = al
                        meth = {"Add": "extend", "BitOr": "update"}.get(
                            type(st.op).__name__, "__iop__")
                        fake = ast.Call(
                            func=ast.Attribute(value=recv, attr=meth,
                                               ctx=ast.Load()),
                            args=[st.value], keywords=[])
                        ast.copy_location(fake, st)
                        ast.fix_missing_locations(fake)
                        d2 = self._mk(base, "mut", st, fake,
                                      {"method": meth,
                                       "prev": env.get(base, EMPTY),
                                       "receiver": recv},
                                      slot=("mutalias", id(st)))
                        env[base] = frozenset({d2})
                        self._register(st, d2)
            elif isinstance(t, ast.Subscript):
                self._expr(t.value, env)
                self._expr(t.slice, env)
                root = t.value
                while isinstance(root, ast.Subscript):
                    root = root.value
                if isinstance(root, ast.Name):
                    prev = env.get(root.id, EMPTY)
                    d = self._mk(root.id, "augstore", st, st.value,
                                 {"op": type(st.op).__name__, "prev": prev,
                                  "target": t})
                    env[root.id] = frozenset({d})
                    self._register(st, d)
            elif isinstance(t, ast.Attribute):
                self._expr(t.value, env)
            return env
        if isinstance(st, ast.Expr):
            self._expr(st.value, env)
            self._mutations(st.value, env, st)
            return env
        if isinstance(st, ast.Return):
            self._expr(st.value, env)
            self.exit_envs.append(dict(env))
            return None
        if isinstance(st, ast.Raise):
            self._expr(st.exc, env)
            self._expr(st.cause, env)
            return None
        if isinstance(st, ast.Delete):
            for t in st.targets:
                if isinstance(t, ast.Name):
                    d = self._mk(t.id, "del", st)
                    env[t.id] = frozenset({d})
                    self._register(st, d)
                else:
                    self._expr(t, env)
                    if isinstance(t, ast.Subscript) and isinstance(
                        t.value, ast.Name
                    ):
                        prev = env.get(t.value.id, EMPTY)
                        d = self._mk(t.value.id, "delitem", st, None,
                                     {"index": t.slice, "prev": prev})
                        env[t.value.id] = frozenset({d})
                        self._register(st, d)
            return env
        if isinstance(st, ast.If):
            self._expr(st.test, env)
            a = self._block(st.body, dict(env))
            b = self._block(st.orelse, dict(env)) if st.orelse else dict(env)
            return self._join(a, b)
        if isinstance(st, (ast.For, ast.AsyncFor)):
            self._expr(st.iter, env)
            self._mutations(st.iter, env, st)
            head = dict(env)
            loop = {"breaks": [], "continues": []}
            self._loops.append(loop)
            for _ in range(6):
                benv = dict(head)
                self._bind_target(st.target, st.iter, benv, "for", st)
                loop["breaks"].clear()
                loop["continues"].clear()
                end = self._block(st.body, benv)
                new_head = head
                for e2 in [end] + loop["continues"]:
                    if e2 is not None:
                        new_head = self._join(new_head, e2, undef=False)
                if _env_eq(new_head, head):
                    break
                head = new_head
            self._loops.pop()
            out = dict(head)
            # after a loop the target may or may not be bound
            if st.orelse:
                out = self._block(st.orelse, out)
            for b in loop["breaks"]:
                out = self._join(out, b, undef=False)
            return out
        if isinstance(st, ast.While):
            head = dict(env)
            loop = {"breaks": [], "continues": []}
            self._loops.append(loop)
            for _ in range(6):
                benv = dict(head)
                self._expr(st.test, benv)
                loop["breaks"].clear()
                loop["continues"].clear()
                end = self._block(st.body, benv)
                new_head = head
                for e2 in [end] + loop["continues"]:
                    if e2 is not None:
                        new_head = self._join(new_head, e2, undef=False)
                if _env_eq(new_head, head):
                    break
                head = new_head
            self._loops.pop()
            infinite = isinstance(st.test, ast.Constant) and bool(
                st.test.value)
            out = None if infinite else dict(head)
            if st.orelse and out is not None:
                out = self._block(st.orelse, out)
            for b in loop["breaks"]:
                out = self._join(out, b, undef=False)
            return out
        if isinstance(st, ast.Break):
            if self._loops:
                self._loops[-1]["breaks"].append(dict(env))
            return None
        if isinstance(st, ast.Continue):
            if self._loops:
                self._loops[-1]["continues"].append(dict(env))
            return None
        if isinstance(st, (ast.With, ast.AsyncWith)):
            for item in st.items:
                self._expr(item.context_expr, env)
                if item.optional_vars is not None:
                    self._bind_target(item.optional_vars, item.context_expr,
                                      env, "with", st, slot=id(item))
            return self._block(st.body, env)
        if isinstance(st, ast.Try):
            acc = [dict(env)]
            self._tries.append(acc)
            body_end = self._block(st.body, dict(env))
            self._tries.pop()
            hstart = None
            for e2 in acc:
                hstart = self._join(hstart, e2, undef=False)
            outs = []
            if st.orelse:
                if body_end is not None:
                    outs.append(self._block(st.orelse, dict(body_end)))
            else:
                outs.append(body_end)
            for h in st.handlers:
                henv = dict(hstart)
                if h.type is not None:
                    self._expr(h.type, henv)
                if h.name:
                    d = self._mk(h.name, "except", h)
                    henv[h.name] = frozenset({d})
                outs.append(self._block(h.body, henv))
            out = None
            for o in outs:
                out = self._join(out, o, undef=False)
            if st.finalbody:
                fstart = out
                fstart = self._join(fstart, hstart, undef=False)
                fend = self._block(st.finalbody, dict(fstart))
                if out is None:
                    return None
                return fend
            return out
        if isinstance(st, (ast.FunctionDef, ast.AsyncFunctionDef)):
            for d0 in st.decorator_list:
                self._expr(d0, env)
            for d0 in st.args.defaults + [k for k in st.args.kw_defaults if k]:
                self._expr(d0, env)
            d = self._mk(st.name, "funcdef", st)
            env[st.name] = frozenset({d})
            self._register(st, d)
            return env
        if isinstance(st, ast.ClassDef):
            d = self._mk(st.name, "classdef", st)
            env[st.name] = frozenset({d})
            return env
        if isinstance(st, (ast.Import, ast.ImportFrom)):
            for a in st.names:
                nm = (a.asname or a.name).split(".")[0]
                d = self._mk(nm, "import", st, None, {"alias": a})
                env[nm] = frozenset({d})
            return env
        if isinstance(st, ast.Assert):
            self._expr(st.test, env)
            self._expr(st.msg, env)
            return env
        if isinstance(st, (ast.Pass, ast.Global, ast.Nonlocal)):
            return env
        # unknown statement kind: walk expressions
        for ch in ast.iter_child_nodes(st):
            if isinstance(ch, ast.expr):
                self._expr(ch, env)
        return env

    @staticmethod
    def _join(a, b, undef=True):
        if a is None:
            return None if b is None else dict(b)
        if b is None:
            return dict(a)
        out = {}
        for k in set(a) | set(b):
            va = a.get(k)
            vb = b.get(k)
            if va is None:
                out[k] = vb | (frozenset({_UNDEF}) if undef else EMPTY)
            elif vb is None:
                out[k] = va | (frozenset({_UNDEF}) if undef else EMPTY)
            elif va is vb or va == vb:
                out[k] = va
            else:
                out[k] = va | vb
        return out

    # ------------------------------------------------------------- queries
    def defs_of(self, name_node: ast.Name) -> frozenset:
        ds = self.uses.get(id(name_node), EMPTY)
        return frozenset(d for d in ds if d is not _UNDEF)

    def uses_by_def(self):
        """Def -> list of Name load nodes it reaches."""
        if not hasattr(self, "_ubd"):
            m = {}
            for nid, ds in self.uses.items():
                node = self.use_nodes.get(nid)
                if node is None:
                    continue
                for d in ds:
                    m.setdefault(d, []).append(node)
            self._ubd = m
        return self._ubd

    def names_in(self, expr):
        return [n for n in ast.walk(expr)
                if isinstance(n, ast.Name) and isinstance(n.ctx, ast.Load)]

    def forward_slice(self, seeds, include_control=False, cfg=None):
        """Defs data-dependent (optionally control dependent) on ``seeds``."""
        tainted = set(seeds)
        changed = True
        while changed:
            changed = False
            for d in self.defs:
                if d in tainted:
                    continue
                hit = False
                if d.value is not None and self.expr_depends(d.value, tainted):
                    hit = True
                ex = d.extra if isinstance(d.extra, dict) else {}
                if not hit and ex.get("prev") and (ex["prev"] & tainted):
                    hit = True
                if not hit and ex.get("index") is not None and \
                        self.expr_depends(ex["index"], tainted):
                    hit = True
                if not hit and include_control and cfg is not None and \
                        d.node is not None and isinstance(d.node, ast.stmt):
                    for test, _pol in cfg.guards(d.node):
                        if self.expr_depends(test, tainted):
                            hit = True
                            break
                if hit:
                    tainted.add(d)
                    changed = True
        return tainted

    def expr_depends(self, expr, defs) -> bool:
        for n in ast.walk(expr):
            if isinstance(n, ast.Name) and isinstance(n.ctx, ast.Load):
                if self.uses.get(id(n), EMPTY) & defs:
                    return True
        return False

    def backward_roots(self, expr, _seen=None):
        """Parameter names (and free/global names) an expression depends on
        through data flow."""
        roots = set()
        seen = _seen if _seen is not None else set()
        stack = [expr]
        while stack:
            e = stack.pop()
            for n in ast.walk(e):
                if isinstance(n, ast.Name) and isinstance(n.ctx, ast.Load):
                    ds = self.uses.get(id(n))
                    if not ds:
                        roots.add(("free", n.id))
                        continue
                    for d in ds:
                        if d in seen or d is _UNDEF:
                            continue
                        seen.add(d)
                        if d.kind == "param":
                            roots.add(("param", d.name))
                        else:
                            if d.value is not None:
                                stack.append(d.value)
                            ex = d.extra if isinstance(d.extra, dict) else {}
                            for p in ex.get("prev", ()):  # chained defs
                                if p not in seen and p is not _UNDEF:
                                    seen.add(p)
                                    if p.kind == "param":
                                        roots.add(("param", p.name))
                                    elif p.value is not None:
                                        stack.append(p.value)
                            if ex.get("index") is not None:
                                stack.append(ex["index"])
        return roots


# -------------------------------------------------------------------- terms
BINOPS = {
    ast.Add: "+", ast.Sub: "-", ast.Mult: "*", ast.Div: "/",
    ast.FloorDiv: "//", ast.Mod: "%", ast.Pow: "**", ast.MatMult: "@",
    ast.BitAnd: "&", ast.BitOr: "|", ast.BitXor: "^", ast.LShift: "<<",
    ast.RShift: ">>",
}
BINOP_NAMES = {k.__name__: v for k, v in BINOPS.items()}
UNOPS = {ast.USub: "-", ast.UAdd: "+", ast.Not: "not", ast.Invert: "~"}
CMPOPS = {
    ast.Eq: "==", ast.NotEq: "!=", ast.Lt: "<", ast.LtE: "<=", ast.Gt: ">",
    ast.GtE: ">=", ast.Is: "is", ast.IsNot: "is not", ast.In: "in",
    ast.NotIn: "not in",
}


class Terms:
    def __init__(self, du: DefUse, max_depth=60, phi_vars=False):
        # phi_vars: names with several reaching definitions are not inlined
        # but stay symbolic as ('var', name, (def uids)) - used by the loop
        # idiom recognisers
        self.phi_vars = phi_vars
        self.var_defs: dict = {}
        self.du = du
        self.prog = du.prog
        self.func = du.func
        self.mod = du.func.module
        self.max_depth = max_depth
        self._memo: dict = {}
        self._stack: list = []

    # public -------------------------------------------------------------
    def of(self, expr, depth=0, cenv=None):
        return self._t(expr, depth, cenv or {})

    def of_def(self, d: Def, depth=0):
        return self._def_term(d, depth)

    def of_defs(self, defs, depth=0):
        defs = [d for d in defs if d is not _UNDEF]
        if self.phi_vars and len(defs) > 1:
            uids = tuple(sorted(d.uid for d in defs))
            v = ("var", defs[0].name, uids)
            self.var_defs[v] = sorted(defs, key=lambda x: x.uid)
            return v
        ts = []
        for d in sorted(defs, key=lambda x: x.uid):
            t = self._def_term(d, depth)
            if t not in ts:
                ts.append(t)
        if not ts:
            return ("unknown", "<no def>")
        if len(ts) == 1:
            return ts[0]
        return ("phi", tuple(ts))

    def returns(self):
        """Terms of every ``return`` value, with the return node."""
        out = []
        for n in _walk_own_stmts(self.du.fnode):
            if isinstance(n, ast.Return) and id(n) not in \
                    self.du.unreachable:
                out.append((n, self.of(n.value) if n.value is not None
                            else ("const", None)))
        if isinstance(self.du.fnode, ast.Lambda):
            out.append((self.du.fnode, self.of(self.du.fnode.body)))
        return out

    # internals ------------------------------------------------------------
    def _canon_call(self, qual, args, kws):
        """One spelling for a call of a repository function: arguments are
        bound to the callee's parameters; an argument that repeats the
        parameter's constant default is dropped; the longest prefix of
        parameters that are all still supplied is written positionally, the
        rest as sorted keywords.  f(a, y=b, x=c), f(a, c, b) and
        f(x=c, y=b, p=a) are the same term; so are f(a) and f(a, flag=False)
        when False is the default."""
        plain = ("call", qual, args, kws)
        if os.environ.get("MOKAPOT_NO_CALLCANON"):
            return plain
        if qual == "builtins.getattr" and len(args) == 2 and not kws and \
                args[1][0] == "const" and isinstance(args[1][1], str) and \
                args[1][1].isidentifier():
            # getattr(x, "name") is x.name
            return ("attr", args[0], args[1][1])
        if qual == "builtins.dict" and not args and kws and not any(
                k == "**" for k, _v in kws):
            # dict(a=x, b=y) is the display {"a": x, "b": y}
            return ("dict", tuple(("const", k) for k, _v in kws),
                    tuple(v for _k, v in kws))
        if qual == "builtins.slice" and not kws and 1 <= len(args) <= 3 \
                and not any(a[0] == "star" for a in args):
            # slice(a, b) is the subscript a:b
            none = ("const", None)
            if len(args) == 1:
                return ("slice", none, args[0], none)
            return ("slice", args[0], args[1],
                    args[2] if len(args) == 3 else none)
        if qual in EXTERNAL_SIGS:
            return self._canon_external(qual, args, kws)
        f = self.prog.funcs.get(qual)
        is_ctor = False
        if f is None and qual in self.prog.classes:
            f = self.prog.funcs.get(qual + ".__init__")
            is_ctor = True
        if f is None or isinstance(f.node, ast.Lambda):
            return plain
        if f.cls is not None and f.params[:1] in (["self"], ["cls"]) and \
                not (is_ctor or qual.endswith(".__init__")):
            return plain      # unbound method called through the class
        r = self._bind_canon(f, args, kws, skip_first=(
            f.cls is not None and f.params[:1] in (["self"], ["cls"])))
        if r is None:
            return plain
        return ("call", qual, r[0], r[1])

    def _canon_external(self, qual, args, kws):
        """Library functions the rules look into: keyword arguments that
        name a leading parameter are written positionally (np.interp(x=a,
        xp=b, fp=c) is np.interp(a, b, c)); everything else stays as it
        is.  Signatures: EXTERNAL_SIGS."""
        plain = ("call", qual, args, kws)
        pos = EXTERNAL_SIGS[qual]
        if any(isinstance(x, tuple) and x and x[0] == "star" for x in args) \
                or any(k == "**" for k, _v in kws) or len(args) > len(pos):
            return plain
        bound = dict(zip(pos, args))
        rest = []
        for k, v in kws:
            if k in bound:
                return plain
            if k in pos:
                bound[k] = v
            else:
                rest.append((k, v))
        out_pos = []
        for name in pos:
            if name in bound:
                out_pos.append(bound.pop(name))
            else:
                break
        rest += list(bound.items())
        return ("call", qual, tuple(out_pos),
                tuple(sorted(rest, key=lambda x: x[0])))

    def _canon_mcall(self, recv, meth, args, kws):
        """The same for a method call whose method name has one signature in
        the whole package (every class that defines it uses the same
        parameter names and defaults): x.m(a, k=b) and x.m(a, b)."""
        plain = ("mcall", recv, meth, args, kws)
        if os.environ.get("MOKAPOT_NO_CALLCANON"):
            return plain
        try:
            cands = self.prog.methods_named(meth)
        except Exception:  # noqa: BLE001
            return plain
        cands = [g for g in cands if not isinstance(g.node, ast.Lambda)
                 and g.params[:1] == ["self"]]
        if not cands:
            return plain

        def sig(g):
            return (tuple(g.params), tuple(sorted(
                (k, ast.dump(v)) for k, v in g.defaults().items())))
        if len({sig(g) for g in cands}) != 1:
            return plain
        r = self._bind_canon(cands[0], args, kws, skip_first=True)
        if r is None:
            return plain
        return ("mcall", recv, meth, r[0], r[1])

    def _bind_canon(self, f, args, kws, skip_first):
        a = f.node.args
        if a.vararg or any(
                isinstance(x, tuple) and x and x[0] == "star"
                for x in args) or any(k == "**" for k, _v in kws):
            return None
        pos = [x.arg for x in a.posonlyargs + a.args]
        kwonly = [x.arg for x in a.kwonlyargs]
        if skip_first:
            pos = pos[1:]
        if len(args) > len(pos):
            return None
        bound = dict(zip(pos, args))
        for k, v in kws:
            if k in bound:
                return None
            if k not in pos + kwonly and not a.kwarg:
                return None
            bound[k] = v      # names collected by **kwargs stay keywords
        defaults = {}
        for name, d in f.defaults().items():
            if isinstance(d, ast.Constant):
                defaults[name] = ("const", d.value)
            elif isinstance(d, ast.UnaryOp) and isinstance(
                    d.op, ast.USub) and isinstance(d.operand, ast.Constant):
                defaults[name] = ("const", -d.operand.value)
        for name in list(bound):
            if name in defaults and bound[name] == defaults[name] and \
                    type(bound[name][1]) is type(defaults[name][1]):
                del bound[name]
        out_pos = []
        for name in pos:
            if name in bound:
                out_pos.append(bound.pop(name))
            else:
                break
        return (tuple(out_pos),
                tuple(sorted(bound.items(), key=lambda x: x[0])))

    def _module_const(self, dn):
        """A module-level name of the package that is bound exactly once,
        to a literal string / number / boolean / None, is that constant
        (NAME = "q_value" ... x[NAME] reads the same as x["q_value"])."""
        if os.environ.get("MOKAPOT_NO_MODCONST"):
            return ("name", dn)
        cache = self.prog.__dict__.setdefault("_modconst_cache", {})
        if dn in cache:
            return cache[dn]
        out = ("name", dn)
        mod, _, nm = dn.rpartition(".")
        m = self.prog.modules.get(mod)
        if m is not None and nm:
            v = m.assigns.get(nm)
            if isinstance(v, ast.Constant) and isinstance(
                    v.value, (str, int, float, bool, type(None))):
                stores = sum(1 for n in ast.walk(m.tree)
                             if isinstance(n, ast.Name) and n.id == nm
                             and isinstance(n.ctx, (ast.Store, ast.Del)))
                if stores == 1:
                    out = ("const", v.value)
        cache[dn] = out
        return out

    def _regetattr(self, t):
        """getattr(x, "name") -> x.name after a constant was substituted"""
        from .tutil import map_term

        def f(x):
            if x[0] == "call" and x[1] == "builtins.getattr" and \
                    len(x[2]) == 2 and not x[3] and x[2][1][0] == "const" \
                    and isinstance(x[2][1][1], str) and \
                    x[2][1][1].isidentifier():
                return ("attr", x[2][0], x[2][1][1])
            return x
        return map_term(t, f)

    def _kw(self, keywords, depth, cenv):
        out = []
        for kw in keywords:
            if kw.arg is None:
                # f(**{"a": x, "b": y}) / f(**dict(a=x, b=y)) / a local
                # name bound once to such a display: the keywords themselves
                vt = self._t(kw.value, depth, cenv)
                if vt[0] == "comp" and vt[1] == "dict":
                    # {k: f(k) for k in ("a", "b")}: the display of its
                    # instances
                    from .tutil import expand_const_comp
                    vt = expand_const_comp(vt)
                    vt = self._regetattr(vt)
                named = None
                if vt[0] == "dict" and len(vt) == 3 and all(
                        k[0] == "const" and isinstance(k[1], str)
                        for k in vt[1]):
                    named = [(k[1], v) for k, v in zip(vt[1], vt[2])]
                elif vt[0] == "call" and vt[1] == "builtins.dict" and \
                        not vt[2] and not any(k == "**" for k, _v in vt[3]):
                    named = list(vt[3])
                if named is not None and len({k for k, _v in named}) == \
                        len(named):
                    out.extend(named)
                else:
                    out.append(("**", vt))
            else:
                out.append((kw.arg, self._t(kw.value, depth, cenv)))
        return tuple(sorted(out, key=lambda x: x[0]))

    def _t(self, e, depth, cenv):
        if e is None:
            return ("const", None)
        if depth > self.max_depth:
            return ("unknown", "deep:" + norm_src(e)[:60])
        d1 = depth + 1
        if isinstance(e, ast.Constant):
            return ("const", e.value)
        if isinstance(e, ast.Name):
            if e.id in cenv:
                return cenv[e.id]
            ds = self.du.uses.get(id(e))
            if ds:
                real = [d for d in ds if d is not _UNDEF]
                if real:
                    return self.of_defs(real, depth)
            r = self.prog.resolve_name(self.func, self.mod, e.id)
            if r is not None:
                return self._module_const(r[1])
            if e.id in ("True", "False", "None"):
                return ("const", {"True": True, "False": False,
                                  "None": None}[e.id])
            return ("free", e.id)
        if isinstance(e, ast.Attribute):
            ads = self.du.uses.get(id(e))
            if ads:
                real = [d for d in ads if d is not _UNDEF]
                if real and not any(d is _UNDEF for d in ads):
                    return self.of_defs(real, depth)
            root = e
            while isinstance(root, ast.Attribute):
                root = root.value
            if isinstance(root, ast.Name) and root.id not in cenv and \
                    not self.du.uses.get(id(root)):
                dn = self.prog.dotted(self.func, self.mod, e)
                if dn is not None:
                    return self._module_const(dn)
            return ("attr", self._t(e.value, d1, cenv), e.attr)
        if isinstance(e, ast.Call):
            args = tuple(self._t(a, d1, cenv) for a in e.args)
            kws = self._kw(e.keywords, d1, cenv)
            fn = e.func
            # delayed(f)(args) -> call f
            if isinstance(fn, ast.Call):
                inner = self.prog.dotted(self.func, self.mod, fn.func) \
                    if not self._is_local_root(fn.func, cenv) else None
                if inner == "joblib.delayed" and fn.args:
                    ft = self._t(fn.args[0], d1, cenv)
                    if ft[0] in ("name", "func"):
                        return self._canon_call(ft[1], args, kws)
                    if ft[0] == "attr":
                        return ("mcall", ft[1], ft[2], args, kws)
                    return ("callv", ft, args, kws)
                return ("callv", self._t(fn, d1, cenv), args, kws)
            if not self._is_local_root(fn, cenv):
                dn = self.prog.dotted(self.func, self.mod, fn)
                if dn is not None:
                    return self._canon_call(dn, args, kws)
            if isinstance(fn, ast.Attribute):
                # self.method(...)
                return self._canon_mcall(self._t(fn.value, d1, cenv),
                                         fn.attr, args, kws)
            if isinstance(fn, ast.Name):
                ft = self._t(fn, d1, cenv)
                if ft[0] in ("name", "func"):
                    return self._canon_call(ft[1], args, kws)
                if ft[0] == "free":
                    return self._canon_call("builtins." + fn.id, args, kws)
                return ("callv", ft, args, kws)
            return ("callv", self._t(fn, d1, cenv), args, kws)
        if isinstance(e, ast.Subscript):
            bt = self._t(e.value, d1, cenv)
            it_ = self._t(e.slice, d1, cenv)
            if it_ == ("idx", bt):
                # S[i] with i the position of the loop in S (i from
                # enumerate(S) or range(len(S))): the loop's element of S
                return ("elem", bt)
            return ("sub", bt, it_)
        if isinstance(e, ast.Slice):
            return ("slice", self._t(e.lower, d1, cenv),
                    self._t(e.upper, d1, cenv), self._t(e.step, d1, cenv))
        if isinstance(e, ast.BinOp):
            return ("bin", BINOPS.get(type(e.op), "?"),
                    self._t(e.left, d1, cenv), self._t(e.right, d1, cenv))
        if isinstance(e, ast.UnaryOp):
            if isinstance(e.op, ast.USub) and isinstance(
                e.operand, ast.Constant
            ) and isinstance(e.operand.value, (int, float)):
                return ("const", -e.operand.value)
            return ("un", UNOPS.get(type(e.op), "?"),
                    self._t(e.operand, d1, cenv))
        if isinstance(e, ast.Compare):
            if len(e.ops) == 1:
                return ("cmp", CMPOPS.get(type(e.ops[0]), "?"),
                        self._t(e.left, d1, cenv),
                        self._t(e.comparators[0], d1, cenv))
            parts = []
            left = e.left
            for op, right in zip(e.ops, e.comparators):
                parts.append(("cmp", CMPOPS.get(type(op), "?"),
                              self._t(left, d1, cenv),
                              self._t(right, d1, cenv)))
                left = right
            return ("bool", "and", tuple(parts))
        if isinstance(e, ast.BoolOp):
            return ("bool", "and" if isinstance(e.op, ast.And) else "or",
                    tuple(self._t(v, d1, cenv) for v in e.values))
        if isinstance(e, ast.IfExp):
            return ("ifexp", self._t(e.test, d1, cenv),
                    self._t(e.body, d1, cenv), self._t(e.orelse, d1, cenv))
        if isinstance(e, (ast.Tuple, ast.List)):
            # (a, *(b, c)) is (a, b, c): a starred element whose value is
            # itself a display (also through a name bound once) is spliced
            elts = []
            for x in e.elts:
                xt = self._t(x, d1, cenv)
                if xt[0] == "star" and isinstance(xt[1], tuple) and \
                        xt[1] and xt[1][0] in ("tuple", "list") and not any(
                            y[0] == "star" for y in xt[1][1]):
                    elts.extend(xt[1][1])
                else:
                    elts.append(xt)
            if len(elts) == 1 and elts[0][0] == "star" and isinstance(
                    e.ctx, ast.Load):
                # [*x] is list(x), (*x,) is tuple(x)
                return ("call", "builtins.list" if isinstance(e, ast.List)
                        else "builtins.tuple", (elts[0][1],), ())
            return ("tuple" if isinstance(e, ast.Tuple) else "list",
                    tuple(elts))
        if isinstance(e, ast.Set):
            return ("set", tuple(self._t(x, d1, cenv) for x in e.elts))
        if isinstance(e, ast.Dict):
            return ("dict",
                    tuple(self._t(k, d1, cenv) if k is not None
                          else ("star", None) for k in e.keys),
                    tuple(self._t(v, d1, cenv) for v in e.values))
        if isinstance(e, ast.Starred):
            return ("star", self._t(e.value, d1, cenv))
        if isinstance(e, (ast.ListComp, ast.SetComp, ast.GeneratorExp,
                          ast.DictComp)):
            kind = {ast.ListComp: "list", ast.SetComp: "set",
                    ast.GeneratorExp: "gen", ast.DictComp: "dict"}[type(e)]
            c2 = dict(cenv)
            gens = []
            for gen in e.generators:
                it = self._t(gen.iter, d1, c2)
                names = self._bind_comp(gen.target, it, c2)
                conds = tuple(self._t(c, d1, c2) for c in gen.ifs)
                gens.append((names, it, conds))
            if isinstance(e, ast.DictComp):
                elt = ("tuple", (self._t(e.key, d1, c2),
                                 self._t(e.value, d1, c2)))
            else:
                elt = self._t(e.elt, d1, c2)
            return ("comp", kind, elt, tuple(gens))
        if isinstance(e, ast.Lambda):
            c2 = dict(cenv)
            params = tuple(a.arg for a in e.args.posonlyargs + e.args.args
                           + e.args.kwonlyargs)
            for p in params:
                c2[p] = ("lparam", p)
            return ("lambda", params, self._t(e.body, d1, c2))
        if isinstance(e, ast.JoinedStr):
            parts = []
            for v in e.values:
                if isinstance(v, ast.Constant):
                    parts.append(("const", v.value))
                elif isinstance(v, ast.FormattedValue):
                    parts.append(self._t(v.value, d1, cenv))
            return ("fstr", tuple(parts))
        if isinstance(e, ast.NamedExpr):
            return self._t(e.value, d1, cenv)
        if isinstance(e, (ast.Yield, ast.YieldFrom, ast.Await)):
            return ("yield", self._t(e.value, d1, cenv))
        return ("unknown", norm_src(e)[:80])

    def _is_local_root(self, e, cenv):
        root = e
        while isinstance(root, ast.Attribute):
            root = root.value
        if isinstance(root, ast.Name):
            if root.id in cenv:
                return True
            ds = self.du.uses.get(id(root))
            if ds and any(d is not _UNDEF and d.kind not in ("import",)
                          for d in ds):
                # nested function defs resolve through the program
                if all(d.kind == "funcdef" for d in ds if d is not _UNDEF):
                    return False
                return True
            return False
        return True

    def _bind_comp(self, target, it, cenv, path=()):
        names = []
        if isinstance(target, ast.Name):
            cenv[target.id] = _elem_term(it, path)
            names.append(target.id)
        elif isinstance(target, (ast.Tuple, ast.List)):
            for i, t in enumerate(target.elts):
                names += self._bind_comp(t, it, cenv, path + (i,))
        return tuple(names)

    def _def_term(self, d: Def, depth):
        if d in self._memo:
            return self._memo[d]
        if d in self._stack:
            return ("rec", d.name)
        if depth > self.max_depth:
            return ("unknown", f"deep:{d.name}")
        self._stack.append(d)
        try:
            t = self._def_term_inner(d, depth + 1)
        finally:
            self._stack.pop()
        if not _contains_rec(t):
            self._memo[d] = t
        return t

    def _prev(self, d, depth):
        ex = d.extra if isinstance(d.extra, dict) else {}
        prev = ex.get("prev", EMPTY)
        return self.of_defs(prev, depth) if prev else ("unknown", "<noprev>")

    def _def_term_inner(self, d: Def, depth):
        k = d.kind
        ex = d.extra if isinstance(d.extra, dict) else {}
        if k == "param":
            return ("param", d.name)
        if k == "lparam":
            return ("lparam", d.name)
        if k == "assign":
            path = ex.get("path", ())
            if path:
                return self._select(d.value, path, depth)
            return self._t(d.value, depth, {})
        if k in ("for", "comp"):
            it = self._t(d.value, depth, {})
            return _elem_term(it, ex.get("path", ()))
        if k == "aug":
            op = BINOP_NAMES.get(ex.get("op"), "?")
            return ("bin", op, self._prev(d, depth),
                    self._t(d.value, depth, {}))
        if k == "store":
            return ("store", self._prev(d, depth),
                    self._t(ex.get("index"), depth, {}),
                    self._t(d.value, depth, {}) if not ex.get("path")
                    else self._select(d.value, ex["path"], depth))
        if k == "augstore":
            return ("augstore", self._prev(d, depth),
                    self._t(ex.get("target"), depth, {}),
                    BINOP_NAMES.get(ex.get("op"), "?"),
                    self._t(d.value, depth, {}))
        if k == "setattr":
            return ("setattr", self._prev(d, depth), ex.get("attr"),
                    self._t(d.value, depth, {}))
        if k == "mut":
            call = d.value
            args = tuple(self._t(a, depth, {}) for a in call.args)
            kws = self._kw(call.keywords, depth, {})
            recv = ex.get("receiver")
            if recv is not None:
                return ("mutsub", self._prev(d, depth),
                        self._t(recv, depth, {}), ex.get("method"), args,
                        kws)
            return ("mut", self._prev(d, depth), ex.get("method"), args, kws)
        if k == "with":
            return ("with", self._t(d.value, depth, {}))
        if k == "del":
            return ("deleted", d.name)
        if k == "delitem":
            return ("delitem", self._prev(d, depth),
                    self._t(ex.get("index"), depth, {}))
        if k == "funcdef":
            f = self.func
            while f is not None:
                if d.name in f.nested:
                    return ("name", f.nested[d.name].qual)
                f = f.parent
            return ("free", d.name)
        if k == "import":
            r = self.prog.resolve_name(self.func, self.mod, d.name)
            return ("name", r[1]) if r else ("free", d.name)
        if k == "except":
            return ("exc", d.name)
        return ("unknown", f"{k}:{d.name}")

    def _select(self, value, path, depth):
        """Component of an unpacked value."""
        e = value
        p = list(path)
        while p and isinstance(e, (ast.Tuple, ast.List)) and isinstance(
            p[0], int
        ) and p[0] < len(e.elts) and not any(
            isinstance(x, ast.Starred) for x in e.elts
        ):
            e = e.elts[p.pop(0)]
        t = self._t(e, depth, {})
        for i in p:
            t = _item(t, i)
        return t


def _item(t, i):
    if t[0] in ("tuple", "list") and isinstance(i, int) and i < len(t[1]):
        return t[1][i]
    return ("item", t, i)


def _elem_term(it, path=()):
    """Element of iterable term ``it`` (loop variable), then components."""
    path = list(path)
    # for i in range(len(S)): i is the position of the loop in S
    if not path and it[0] == "call" and it[1] == "builtins.range" and \
            len(it[2]) == 1 and not it[3] and it[2][0][0] == "call" and \
            it[2][0][1] == "builtins.len" and len(it[2][0][2]) == 1:
        return ("idx", it[2][0][2][0])
    # enumerate(x): (idx, elem)
    if it[0] == "call" and it[1] == "builtins.enumerate" and it[2]:
        if path:
            i = path.pop(0)
            base = ("idx", it[2][0]) if i == 0 else _elem_term(it[2][0])
            for j in path:
                base = _item(base, j)
            if i == 1 and path:
                return _elem_term(it[2][0], path)
            return base
        return ("elem", it)
    if it[0] == "call" and it[1] == "builtins.zip":
        if path:
            i = path.pop(0)
            if isinstance(i, int) and i < len(it[2]) and not any(
                a[0] == "star" for a in it[2]
            ):
                base = ("zipelem", i, it[2])
            else:
                base = ("item", ("elem", it), i)
            for j in path:
                base = _item(base, j)
            return base
        return ("elem", it)
    if it[0] == "mcall" and it[2] == "items" and not it[3]:
        if path:
            i = path.pop(0)
            base = ("key", it[1]) if i == 0 else ("value", it[1])
            for j in path:
                base = _item(base, j)
            return base
        return ("elem", it)
    base = ("elem", it)
    for j in path:
        base = _item(base, j)
    return base


def _contains_rec(t):
    if isinstance(t, tuple):
        if t and t[0] == "rec":
            return True
        return any(_contains_rec(x) for x in t)
    return False


def _walk_own_stmts(fnode):
    body = getattr(fnode, "body", [])
    if not isinstance(body, list):
        return
    stack = list(body)
    while stack:
        n = stack.pop()
        yield n
        if isinstance(n, (ast.FunctionDef, ast.AsyncFunctionDef,
                          ast.ClassDef)):
            continue
        for ch in ast.iter_child_nodes(n):
            if isinstance(ch, ast.stmt):
                stack.append(ch)
            elif isinstance(ch, ast.ExceptHandler):
                stack.extend(ch.body)


# ------------------------------------------------------------ term utilities
def walk_term(t):
    """Pre-order traversal of all sub-terms."""
    stack = [t]
    while stack:
        x = stack.pop()
        if isinstance(x, tuple):
            if x and isinstance(x[0], str):
                yield x
            for y in x:
                if isinstance(y, tuple):
                    stack.append(y)


def term_contains(t, pred) -> bool:
    return any(pred(x) for x in walk_term(t))


def term_params(t) -> set[str]:
    return {x[1] for x in walk_term(t) if x[0] == "param"}


def show(t, maxlen=200) -> str:
    s = _show(t)
    return s if len(s) <= maxlen else s[: maxlen - 3] + "..."


def key(t, _maxlen=None) -> str:
    """Untruncated rendering: the only form that may be compared."""
    return _show(t)


def _show(t):
    if not isinstance(t, tuple) or not t:
        return repr(t)
    k = t[0]
    if not isinstance(k, str):
        return "(" + ", ".join(_show(x) for x in t) + ")"
    if k == "param":
        return t[1]
    if k == "lparam":
        return t[1]
    if k == "const":
        return repr(t[1])
    if k in ("name", "free"):
        return t[1].replace("numpy.", "np.").replace("builtins.", "")
    if k == "call":
        a = [_show(x) for x in t[2]] + [f"{n}={_show(v)}" for n, v in t[3]]
        return f"{_show(('name', t[1]))}({', '.join(a)})"
    if k == "mcall":
        a = [_show(x) for x in t[3]] + [f"{n}={_show(v)}" for n, v in t[4]]
        return f"{_show(t[1])}.{t[2]}({', '.join(a)})"
    if k == "callv":
        a = [_show(x) for x in t[2]] + [f"{n}={_show(v)}" for n, v in t[3]]
        return f"({_show(t[1])})({', '.join(a)})"
    if k == "attr":
        return f"{_show(t[1])}.{t[2]}"
    if k == "sub":
        return f"{_show(t[1])}[{_show(t[2])}]"
    if k == "slice":
        def s(x):
            return "" if x == ("const", None) else _show(x)
        r = f"{s(t[1])}:{s(t[2])}"
        if t[3] != ("const", None):
            r += f":{s(t[3])}"
        return r
    if k == "bin":
        return f"({_show(t[2])} {t[1]} {_show(t[3])})"
    if k == "un":
        return f"{t[1]}{' ' if t[1] == 'not' else ''}{_show(t[2])}"
    if k == "cmp":
        return f"({_show(t[2])} {t[1]} {_show(t[3])})"
    if k == "bool":
        return "(" + f" {t[1]} ".join(_show(x) for x in t[2]) + ")"
    if k in ("tuple", "list", "set"):
        o, c = {"tuple": "()", "list": "[]", "set": "{}"}[k]
        return o + ", ".join(_show(x) for x in t[1]) + c
    if k == "ifexp":
        return f"({_show(t[2])} if {_show(t[1])} else {_show(t[3])})"
    if k == "phi":
        return "phi(" + " | ".join(_show(x) for x in t[1]) + ")"
    if k == "rec":
        return f"<loop:{t[1]}>"
    if k == "var":
        return f"<{t[1]}>"
    if k == "store":
        return f"{_show(t[1])}{{[{_show(t[2])}]:={_show(t[3])}}}"
    if k == "mut":
        a = [_show(x) for x in t[3]]
        return f"{_show(t[1])}{{.{t[2]}({', '.join(a)})}}"
    if k == "elem":
        return f"elem({_show(t[1])})"
    if k == "idx":
        return f"idx({_show(t[1])})"
    if k == "zipelem":
        return f"zip[{t[1]}]({', '.join(_show(x) for x in t[2])})"
    if k == "item":
        return f"{_show(t[1])}.{t[2]}"
    if k == "comp":
        gens = "; ".join(
            f"{','.join(g[0])} in {_show(g[1])}"
            + (" if " + " and ".join(_show(c) for c in g[2]) if g[2] else "")
            for g in t[3])
        return f"[{_show(t[2])} for {gens}]"
    if k == "lambda":
        return f"lambda {','.join(t[1])}: {_show(t[2])}"
    if k == "fstr":
        return "f'" + "".join(
            x[1] if x[0] == "const" and isinstance(x[1], str)
            else "{" + _show(x) + "}" for x in t[1]) + "'"
    if k == "unknown":
        return f"?{t[1]}?"
    return k + "(" + ", ".join(
        _show(x) if isinstance(x, tuple) else repr(x) for x in t[1:]) + ")"
