"""Inter-procedural FLAG routing helpers."""

from __future__ import annotations

import ast

from .core import Program, Func
from .defuse import DefUse


class Flow:
    def __init__(self, prog: Program):
        self.prog = prog
        self._du: dict[str, DefUse] = {}

    def du(self, f: Func) -> DefUse:
        d = self._du.get(f.qual)
        if d is None:
            d = self._du[f.qual] = DefUse(self.prog, f)
        return d

    def roots(self, f: Func, expr: ast.AST):
        """('param', name) / ('free', name) roots of an expression."""
        return self.du(f).backward_roots(expr)

    def param_origins(self, f: Func, formal: str, stop: set[str],
                      _seen=None, depth=0):
        """Where does the value of ``f``'s parameter ``formal`` come from?

        Follows callers (call-graph, CHA included) upwards until a function
        in ``stop`` is reached.  Returns a set of
          ('param', func_qual, name)   - parameter of a stop function
          ('const', text)              - constant actual
          ('default', func_qual, name) - not passed: callee default used
          ('expr', func_qual, text)    - actual has no parameter roots
          ('top', func_qual, name)     - function without callers
        """
        _seen = _seen if _seen is not None else set()
        key = (f.qual, formal)
        if key in _seen or depth > 8:
            return set()
        _seen.add(key)
        if f.qual in stop:
            return {("param", f.qual, formal)}
        out = set()
        callers = self.prog.callers_of(f.qual)
        if not callers:
            return {("top", f.qual, formal)}
        for caller, call, kind in callers:
            b = self.prog.bind(f, call)
            actual = b.get(formal)
            if actual is None:
                if any(kw.arg is None for kw in call.keywords) or any(
                        isinstance(a, ast.Starred) for a in call.args):
                    out.add(("expr", caller.qual, "*args/**kwargs"))
                else:
                    out.add(("default", f.qual, formal))
                continue
            if isinstance(actual, ast.Constant):
                out.add(("const", repr(actual.value)))
                continue
            rs = self.roots(caller, actual)
            prs = [r for r in rs if r[0] == "param"]
            if not prs:
                out.add(("expr", caller.qual, ast.unparse(actual)[:60]))
            for _k, pname in prs:
                if pname == "self":
                    # attribute of self: look for the store in __init__
                    out |= self._self_attr_origin(caller, actual, stop,
                                                  _seen, depth)
                    continue
                out |= self.param_origins(caller, pname, stop, _seen,
                                          depth + 1)
        return out

    def _self_attr_origin(self, method: Func, actual, stop, _seen, depth):
        """self.x passed on: where is self.x assigned in the class?"""
        attr = None
        for n in ast.walk(actual):
            if isinstance(n, ast.Attribute) and isinstance(
                    n.value, ast.Name) and n.value.id == "self":
                attr = n.attr
        if attr is None or method.cls is None:
            return {("expr", method.qual, ast.unparse(actual)[:60])}
        out = set()
        for m in method.cls.methods.values():
            du = self.du(m)
            for root, a, value, st in du.attr_stores:
                if root == "self" and a == attr:
                    rs = du.backward_roots(value)
                    prs = [r for r in rs if r[0] == "param"
                           and r[1] != "self"]
                    if isinstance(value, ast.Constant):
                        out.add(("const", repr(value.value)))
                    for _k, pname in prs:
                        out |= self.param_origins(m, pname, stop, _seen,
                                                  depth + 1)
        return out or {("expr", method.qual, ast.unparse(actual)[:60])}
