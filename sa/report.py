"""Check context: obligations, findings, known findings, evidence, exit code."""

from __future__ import annotations

import hashlib
import json
import os
import sys
import time
import traceback
from pathlib import Path

from .core import AnalysisError, Program, norm_src

VERIF = Path(__file__).resolve().parent.parent
KNOWN = VERIF / "known_findings.json"
# where evidence/ and replay/ are written (the self-test redirects them)
OUT = Path(os.environ.get("VERIF_OUT", str(VERIF)))

TRUSTED_BASE = [
    "CPython ast module (parsing of /repo/mokapot/**/*.py)",
    "numpy summaries: argsort/unique/cumsum/flip/interp/clip/hstack/"
    "concatenate/split/searchsorted/maximum.accumulate/minimum.accumulate",
    "scipy.optimize.nnls returns a non-negative solution",
    "pandas summaries: sort_values/drop_duplicates/sample/loc/iloc/reindex/"
    "rename/concat keep row identity as documented",
    "pyarrow iter_batches yields batches of exactly batch_size rows except "
    "the last",
    "triqler.qvality.getQvaluesFromScores(includeDecoys=True) returns one "
    "value per input in descending-score order",
    "joblib.Parallel returns results in task order; tasks may interleave",
    "Python: dict keeps insertion order; set-of-str iteration order depends "
    "on PYTHONHASHSEED",
]


class Finding:
    def __init__(self, prop, rule, func, construct, message, loc, witness=None):
        self.prop = prop
        self.rule = rule
        self.func = func
        self.construct = construct
        self.message = message
        self.loc = loc
        self.witness = witness

    @property
    def key(self):
        return f"{self.rule}|{self.func}|{self.construct}"

    def as_dict(self):
        return {
            "property": self.prop, "rule": self.rule, "function": self.func,
            "construct": self.construct, "message": self.message,
            "location": self.loc, "witness": self.witness, "key": self.key,
        }


class Ctx:
    def __init__(self, prop: str, tier: str, seed: int, prog: Program):
        self.prop = prop
        self.tier = tier
        self.seed = seed
        self.prog = prog
        self.findings: list[Finding] = []
        self.obligations: list[dict] = []
        self.info: list[str] = []
        self.controls = {"expected": 0, "ok": 0, "detail": []}
        self.extra: dict = {}
        self.assumptions: list[str] = []
        self.cases: set[str] = set()
        self.analysed_funcs: set[str] = set()
        self.rule_instances: dict[str, int] = {}

    # ------------------------------------------------------------ recording
    def use(self, func):
        """Record that ``func`` was analysed (Func or qualified name)."""
        self.analysed_funcs.add(getattr(func, "qual", func))

    def ok(self, rule, func, construct, detail="", case=None):
        q = getattr(func, "qual", func)
        self.use(q)
        self.obligations.append({
            "rule": rule, "function": q, "construct": construct,
            "verdict": "discharged", "detail": detail,
            **({"case": case} if case else {}),
        })
        self.rule_instances[rule] = self.rule_instances.get(rule, 0) + 1
        if case:
            self.cases.add(case)

    def fail(self, rule, func, construct, message, node=None, witness=None,
             case=None):
        q = getattr(func, "qual", func)
        self.use(q)
        loc = ""
        if node is not None and hasattr(func, "loc"):
            loc = func.loc(node)
        elif hasattr(func, "loc"):
            loc = func.loc()
        self.obligations.append({
            "rule": rule, "function": q, "construct": construct,
            "verdict": "VIOLATED", "detail": message, "location": loc,
            **({"case": case} if case else {}),
        })
        self.rule_instances[rule] = self.rule_instances.get(rule, 0) + 1
        if case:
            self.cases.add(case)
        f = Finding(self.prop, rule, q, construct, message, loc, witness)
        # one finding per key (several flag cases may repeat it)
        for g in self.findings:
            if g.key == f.key:
                if case and case not in (g.message or ""):
                    g.message += f" [{case}]"
                return g
        if case:
            f.message += f" [{case}]"
        self.findings.append(f)
        return f

    def check(self, cond, rule, func, construct, message, node=None,
              detail="", witness=None, case=None):
        if cond:
            self.ok(rule, func, construct, detail, case)
        else:
            self.fail(rule, func, construct, message, node, witness, case)
        return bool(cond)

    def require(self, cond, what):
        """Fail closed when an idiom / anchor is not recognised."""
        if not cond:
            raise AnalysisError(what)

    def floor(self, rule, found, expected):
        """A rule must match at least the number of sites confirmed by hand."""
        if found < expected:
            raise AnalysisError(
                f"rule {rule}: matched {found} site(s), fewer than the "
                f"{expected} confirmed by reading the code")

    def control(self, name, ok, detail=""):
        self.controls["expected"] += 1
        if ok:
            self.controls["ok"] += 1
        self.controls["detail"].append(
            {"control": name, "ok": bool(ok), "detail": detail})
        if not ok:
            raise AnalysisError(f"positive control '{name}' did not behave "
                                f"as expected: {detail}")

    def note(self, msg):
        self.info.append(msg)


def load_known():
    if not KNOWN.exists():
        return []
    return json.loads(KNOWN.read_text())


def unseen_helpers(prog, qual):
    """Repository functions called by ``qual`` that did not exist in the
    tree the rules were written against (not in refnames.json) and could
    not be inlined: part of the logic the rule reads has moved where the
    rule does not look."""
    import ast as _ast
    from .refnames import load_ref
    ref = load_ref()
    f = prog.funcs.get(qual)
    if f is None or not ref:
        return []
    out = set()
    try:
        sites = list(prog.call_sites(f))
    except Exception:  # noqa: BLE001
        return []
    for _call, kind, targets in sites:
        if kind not in ("internal", "cha"):
            continue
        for t in targets or ():
            g = prog.funcs.get(t)
            if g is not None and t not in ref and not isinstance(
                    g.node, _ast.Lambda):
                out.add(t)
    return sorted(out)


def _generic_memo(ctx):
    """MEMO for every property: the functions the rules read, plus the
    helpers they call that the reference tree does not know, must not carry
    state from one call to the next (a result that depends on what the
    process did before is not a function of the inputs any more)."""
    if any(o.get("rule", "").endswith("no-cross-call-state")
           for o in ctx.obligations):
        return
    from .memo import check_no_cross_call_state
    prog = ctx.prog
    quals = set(q for q in ctx.analysed_funcs if q in prog.funcs)
    work = list(quals)
    while work:
        q = work.pop()
        for h in unseen_helpers(prog, q):
            if h not in quals:
                quals.add(h)
                work.append(h)
    # ... and everything they reach through the call graph: a cache in a
    # callee changes what the anchored function computes just as well.  Only
    # carriers of state are looked at there (cheap syntactic pre-filter in
    # memo.might_carry_state), so the wider scope costs little.
    from .memo import might_carry_state, cache_decorators
    try:
        reach = prog.reachable(sorted(quals))
    except Exception:  # noqa: BLE001
        reach = set()
    # a cached helper that the reference tree does not know was inlined at
    # its call sites (no call edge is left): its cache is judged anyway
    try:
        from .refnames import load_ref
        ref = load_ref() or {}
    except Exception:  # noqa: BLE001
        ref = {}
    scope_modules = {prog.funcs[q].module.name for q in set(quals) | set(
        reach) if q in prog.funcs}
    for q, fn in prog.funcs.items():
        import ast as _ast
        if q not in ref and not isinstance(fn.node, _ast.Lambda) and \
                fn.module.name in scope_modules and cache_decorators(fn):
            reach.add(q)
    for q in sorted(reach):
        fn = prog.funcs.get(q)
        if fn is not None and q not in quals and might_carry_state(prog, fn):
            quals.add(q)
    funcs = [prog.funcs[q] for q in sorted(quals)]
    if funcs:
        check_no_cross_call_state(
            ctx, f"{ctx.prop}-no-cross-call-state", funcs, "run")


def finish(ctx: Ctx, t0: float, explanation: str, technique: str,
           only_key: str | None = None) -> int:
    known = load_known()
    known_keys = {
        k["key"]: k for k in known
        if k.get("status") == "known" and k.get("property") == ctx.prop
    }
    new = []
    printed_known = []
    for f in ctx.findings:
        if only_key and f.key != only_key:
            continue
        if f.key in known_keys:
            printed_known.append((f, known_keys[f.key]))
        else:
            new.append(f)
    for f, k in printed_known:
        print(f"KNOWN-FINDING: property={ctx.prop} {k.get('what', f.message)}"
              f" [{f.rule} {f.func} :: {f.construct}]")
    rc = 0
    replay_dir = OUT / "replay"
    # a violation is only reported when the rule has seen all the code it
    # was written for: if the judged function now delegates to helpers
    # that are new (and could not be inlined), the verdict is 'undecided'
    undecided = []
    judged = []
    for f in new:
        hs = unseen_helpers(ctx.prog, f.func)
        (undecided if hs else judged).append((f, hs))
    for f, hs in undecided:
        print(f"UNDECIDED property={ctx.prop} rule={f.rule}: {f.func} now "
              f"delegates to {', '.join(hs)}, which the rule does not "
              f"follow; not judged ({f.message[:160]})")
        ctx.note(f"undecided: {f.key} (delegates to {hs})")
    new = [f for f, _h in judged]
    if undecided and not new:
        rc = 2
    for f in new:
        replay_dir.mkdir(parents=True, exist_ok=True)
        h = hashlib.sha1(f.key.encode()).hexdigest()[:10]
        path = replay_dir / f"{ctx.prop}-{h}.json"
        path.write_text(json.dumps(f.as_dict(), indent=1))
        print(f"{f.loc}: {f.func}: rule {f.rule}: {f.message}")
        print(f"    construct: {f.construct}")
        if f.witness:
            print(f"    witness: {f.witness}")
        print(f"VIOLATION property={ctx.prop} replay={path}")
        rc = 1
    n_ob = len(ctx.obligations)
    n_ok = sum(1 for o in ctx.obligations if o["verdict"] == "discharged")
    st = dict(ctx.prog.stats)
    distinct = len({(o["rule"], o["function"], o["construct"],
                     o.get("case")) for o in ctx.obligations})
    samples = ctx.obligations[:40]
    bad = [o for o in ctx.obligations if o["verdict"] != "discharged"]
    for o in bad:
        if o not in samples:
            samples.append(o)
    ev = {
        "property_id": ctx.prop,
        "tier": ctx.tier,
        "seed": ctx.seed,
        "level": "other",
        "coverage": {
            "explanation": explanation,
            "technique": technique,
            "obligations": n_ob,
            "discharged": n_ok,
            "evaluations": max(n_ob, 1),
            "distinct_nontrivial": distinct,
            "rule": "one obligation per (rule, function, construct, flag "
                    "case) instance found in the current /repo source; "
                    "distinct = distinct such tuples",
            "samples": samples,
            "rule_instances": ctx.rule_instances,
            "flag_cases": sorted(ctx.cases),
            "functions_analysed": sorted(ctx.analysed_funcs),
            "program": st,
            "positive_controls": ctx.controls,
            "known_findings_reported": [f.key for f, _ in printed_known],
            "checker_cmd": f"./check {ctx.prop} --tier {ctx.tier}",
            "trusted_base": TRUSTED_BASE,
            "exhaustive": False,
            "notes": ctx.info,
            **ctx.extra,
        },
        "assumptions": ctx.assumptions + [
            "library summaries listed under coverage.trusted_base",
            "only the structural necessary conditions listed in "
            "coverage.explanation are decided, not the behaviour itself",
        ],
        "wall_s": round(time.time() - t0, 3),
        "violations": len(new),
    }
    evdir = OUT / "evidence"
    evdir.mkdir(parents=True, exist_ok=True)
    (evdir / f"{ctx.prop}.json").write_text(json.dumps(ev, indent=1))
    print(f"{ctx.prop}: tier={ctx.tier} obligations={n_ob} discharged={n_ok} "
          f"known={len(printed_known)} violations={len(new)} "
          f"functions={len(ctx.analysed_funcs)} "
          f"wall={ev['wall_s']}s")
    return rc


def run_check(prop: str, tier: str, seed: int, rule_fn, explanation: str,
              technique: str, replay: str | None = None) -> int:
    t0 = time.time()
    ctx = None
    try:
        prog = Program()
        prog.build_callgraph()
        ctx = Ctx(prop, tier, seed, prog)
        rule_fn(ctx)
        _generic_memo(ctx)
        only = None
        if replay:
            rec = json.loads(Path(replay).read_text())
            only = rec.get("key")
            print(f"replaying {only}")
            hit = [f for f in ctx.findings if f.key == only]
            if not hit:
                print("the recorded construct no longer violates the rule "
                      "on the current tree")
        return finish(ctx, t0, explanation, technique, only)
    except AnalysisError as e:
        # violations found before the analysis became undecidable are still
        # reported (exit 1); otherwise fail closed with exit 2
        if ctx is not None and ctx.findings:
            print(f"ANALYSIS-INCOMPLETE property={prop}: {e}")
            ctx.note(f"analysis incomplete: {e}")
            rc = finish(ctx, t0, explanation, technique, None)
            return rc if rc == 1 else 2
        print(f"ANALYSIS-ERROR property={prop}: {e}")
        return 2
    except Exception:  # noqa: BLE001 - tracebacks must not look like exit 1
        print(f"ANALYSIS-ERROR property={prop}: internal error")
        traceback.print_exc(file=sys.stdout)
        return 2
