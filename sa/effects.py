"""EFFECT scans and the writer-lifecycle typestate shared by several rules."""

from __future__ import annotations

import ast

from .cfg import CFG
from .core import Func, Program, const_value, walk_own
from .defuse import DefUse, Terms, show, walk_term

FS_ENUM_ATTRS = {"glob", "rglob", "iterdir"}
FS_ENUM_DOTTED = {"os.listdir", "os.scandir", "os.walk", "glob.glob",
                  "glob.iglob", "os.fwalk"}


def fs_enumerations(prog: Program, func: Func):
    """Call nodes that enumerate a directory."""
    out = []
    for call, kind, tg in prog.call_sites(func):
        if kind == "external" and tg and tg[0] in FS_ENUM_DOTTED:
            out.append(call)
        elif isinstance(call.func, ast.Attribute) and \
                call.func.attr in FS_ENUM_ATTRS and kind in (
                    "method", "cha", "unresolved", "external"):
            # exclude glob module alias handled above
            out.append(call)
    return out


def open_calls(prog: Program, func: Func):
    """[(call, mode string or None)] for builtin/gzip/Path open calls."""
    out = []
    for call, kind, tg in prog.call_sites(func):
        is_open = (kind == "external" and tg and tg[0] in (
            "builtins.open", "gzip.open", "io.open", "codecs.open")) or (
            isinstance(call.func, ast.Attribute) and call.func.attr == "open"
            and kind in ("method",))
        if not is_open:
            continue
        mode = None
        pos = 1 if not isinstance(call.func, ast.Attribute) or kind == \
            "external" else 0
        if len(call.args) > pos:
            mode = const_value(call.args[pos], "?")
        for kw in call.keywords:
            if kw.arg == "mode":
                mode = const_value(kw.value, "?")
        out.append((call, mode if mode is not None else "r"))
    return out


def pandas_append_writes(func: Func):
    """x.to_csv(..., mode='a') style appends."""
    out = []
    for n in walk_own(func.node):
        if isinstance(n, ast.Call) and isinstance(n.func, ast.Attribute) and \
                n.func.attr in ("to_csv", "to_json", "to_hdf"):
            for kw in n.keywords:
                if kw.arg == "mode" and str(const_value(kw.value, "")
                                             ).startswith("a"):
                    out.append(n)
    return out


# ------------------------------------------------------- writer typestate
WRITER_CTORS = {
    "mokapot.tabular_data.TabularDataWriter.from_suffix",
    "mokapot.tabular_data.CSVFileWriter.__init__",
    "mokapot.tabular_data.ParquetFileWriter.__init__",
    "mokapot.tabular_data.BufferedWriter.__init__",
    "mokapot.tabular_data.SqliteWriter.__init__",
    "mokapot.confidence_writer.ConfidenceSqliteWriter.__init__",
    "mokapot.tabular_data.CSVFileWriter",
    "mokapot.tabular_data.ParquetFileWriter",
    "mokapot.tabular_data.BufferedWriter",
    "mokapot.confidence_writer.ConfidenceSqliteWriter",
}
LIFECYCLE = {"initialize", "append_data", "finalize", "write", "__enter__",
             "__exit__"}


def _is_ctor_term(prog, t, _depth=0):
    """True when term ``t`` is a call creating a writer (directly or through
    a local helper whose every return is such a call)."""
    if t[0] != "call":
        return False
    name = t[1]
    if name in WRITER_CTORS:
        return True
    f = prog.funcs.get(name)
    if f is not None and _depth < 2 and f.module.name.startswith("mokapot"):
        du = DefUse(prog, f)
        T = Terms(du)
        rets = T.returns()
        return bool(rets) and all(
            any(_is_ctor_term(prog, x, _depth + 1) for x in walk_term(rt))
            for _n, rt in rets)
    return False


def writer_origin(prog, t):
    """The creation call term inside receiver term ``t`` (or None)."""
    for x in walk_term(t):
        if x[0] == "call" and _is_ctor_term(prog, x):
            return x
        # list(map(create_writer, paths))
        if x[0] == "call" and x[1] == "builtins.map" and x[2] and \
                x[2][0][0] == "name":
            fake = ("call", x[2][0][1], (), ())
            if _is_ctor_term(prog, fake):
                return x
    return None


class WriterEvents:
    """Lifecycle events of writers inside one function, grouped by the
    collection (creation site) they belong to."""

    def __init__(self, prog: Program, func: Func):
        self.prog = prog
        self.func = func
        self.du = DefUse(prog, func)
        self.T = Terms(self.du)
        self.cfg = CFG(func.node)
        self.groups: dict[str, dict] = {}
        self._scan()

    def _group(self, origin_t, recv_t):
        # group key: the creation call text (collection level)
        key = show(origin_t, 200)
        g = self.groups.setdefault(key, {"origin": origin_t, "events": []})
        return g

    def _scan(self):
        fnode = self.func.node
        for n in walk_own(fnode):
            if isinstance(n, ast.Call) and isinstance(n.func, ast.Attribute) \
                    and n.func.attr in LIFECYCLE:
                recv = self.T.of(n.func.value)
                org = writer_origin(self.prog, recv)
                if org is not None:
                    self._group(org, recv)["events"].append(
                        (n.func.attr, n))
            if isinstance(n, (ast.With, ast.AsyncWith)):
                for item in n.items:
                    ce = item.context_expr
                    t = self.T.of(ce)
                    if t[0] == "call" and t[1] == \
                            "mokapot.tabular_data.auto_finalize" and t[2]:
                        org = writer_origin(self.prog, t[2][0])
                        if org is not None:
                            self._group(org, t)["events"].append(
                                ("with", n))
                    else:
                        org = writer_origin(self.prog, t)
                        if org is not None and t[0] == "call":
                            self._group(org, t)["events"].append(
                                ("with", n))

    def inside(self, outer, node):
        return any(x is node for x in ast.walk(outer))

    def _anchor(self, stmt_a, stmt_i):
        """Outermost ancestor statement of ``stmt_i`` that does not contain
        ``stmt_a`` (the loop / if / statement through which the event is
        reached from the common block)."""
        cur = self.cfg.stmt_of(stmt_i)
        anchor = cur
        while True:
            par = self.cfg.parent.get(id(anchor))
            while par is not None and not isinstance(par, ast.stmt) and \
                    not isinstance(par, ast.ExceptHandler):
                par = self.cfg.parent.get(id(par))
            if par is None or par is self.func.node:
                return anchor
            if self.inside(par, stmt_a):
                return anchor
            anchor = par

    def check_group(self, g):
        """Returns dict(init_ok, final_ok, appends, why, conditional)."""
        ev = g["events"]
        appends = [n for k, n in ev if k == "append_data"]
        writes = [n for k, n in ev if k == "write"]
        withs = [n for k, n in ev if k == "with"]
        inits = [n for k, n in ev if k in ("initialize", "__enter__")]
        finals = [n for k, n in ev if k in ("finalize", "__exit__")]
        res = {"appends": len(appends), "writes": len(writes),
               "inits": len(inits) + len(withs),
               "finals": len(finals) + len(withs),
               "init_ok": True, "final_ok": True, "why": [],
               "conditional": []}
        cfg = self.cfg
        for a in appends:
            if any(self.inside(w, a) for w in withs):
                continue
            an = cfg.node_of(a).id
            through = set()
            for i in inits:
                anc = self._anchor(a, i)
                if isinstance(anc, ast.If):
                    res["conditional"].append(
                        (i, [ast.unparse(anc.test)]))
                through.add(cfg.node_of(anc).id)
            ok = bool(through) and cfg.every_path_passes(
                cfg.entry.id, an, through)
            if not ok:
                res["init_ok"] = False
                res["why"].append(
                    f"append_data at line {a.lineno} is not preceded by "
                    "initialize() on every path")
            fin_through = set()
            for x in finals:
                anc = self._anchor(a, x)
                if isinstance(anc, ast.If):
                    res["conditional"].append((x, [ast.unparse(anc.test)]))
                fin_through.add(cfg.node_of(anc).id)
            okf = bool(fin_through) and cfg.every_path_passes(
                an, cfg.exit.id, fin_through - {an})
            if not okf:
                res["final_ok"] = False
                res["why"].append(
                    f"after append_data at line {a.lineno} some normal path "
                    "reaches the end of the function without finalize()")
        return res


def dropped_lazy_effects(fnode):
    """Expression statements that build a lazy iterator and drop it:
    ``map(f, xs)``, ``filter(f, xs)``, ``(f(x) for x in xs)`` as a statement
    never call f.  Returns the offending expression nodes."""
    out = []
    for n in ast.walk(fnode):
        if isinstance(n, ast.Expr):
            v = n.value
            if isinstance(v, ast.GeneratorExp):
                out.append(v)
            elif isinstance(v, ast.Call) and isinstance(
                    v.func, ast.Name) and v.func.id in ("map", "filter"):
                out.append(v)
    return out
