"""Thorough tier: everything the quick tier decides, plus

  * mutation sensitivity of the property's rules: every entry of
    selftest/mutants/<prop>.py (breaking and neutral edits of the *current*
    /repo source) is applied to a scratch copy under mkdtemp() and only the
    analyser is run on it;
  * false-alarm resistance: four machine-generated behaviour-preserving
    rewrites of the whole package (re-print, rename all locals, insert
    no-ops, all three) must leave the verdict unchanged;
  * the confirmed seeded changes filed under seeded/ for this property are
    replayed on scratch copies;
  * package-wide sweeps of the generic rule families (effects, cross-call
    state), reported as information.

None of this changes the exit code, which reflects the analysed tree only;
weak or over-eager rules are listed in the evidence.
"""

from __future__ import annotations

import ast
import importlib.util
import json
import sys
from concurrent.futures import ThreadPoolExecutor
from pathlib import Path

from .effects import fs_enumerations, open_calls
from .memo import cache_decorators, module_state_writes, mutable_defaults

VERIF = Path(__file__).resolve().parent.parent


def _load(path, name):
    spec = importlib.util.spec_from_file_location(name, path)
    m = importlib.util.module_from_spec(spec)
    spec.loader.exec_module(m)
    return m


def run(ctx):
    prop = ctx.prop
    st = VERIF / "selftest"
    sys.path.insert(0, str(st))
    out = {}
    # 1. mutants
    mt = st / "mutants" / f"{prop.lower()}.py"
    if mt.exists():
        runner = _load(st / "run.py", "verif_selftest_run")
        mus = []
        for mu in _load(mt, f"mut_{prop}").MUTANTS:
            mu = dict(mu)
            mu.setdefault("prop", prop)
            mus.append(mu)
        with ThreadPoolExecutor(16) as ex:
            res = list(ex.map(runner.run_one, mus))
        breaking = [r for r in res if r["expect"] != "silent"]
        neutral = [r for r in res if r["expect"] == "silent"]
        out["mutation_sensitivity"] = {
            "mutants": len(res),
            "breaking": len(breaking),
            "breaking_detected": sum(1 for r in breaking
                                     if r["result"] == "ok"),
            "neutral": len(neutral),
            "neutral_silent": sum(1 for r in neutral if r["result"] == "ok"),
            "skipped": [r["name"] for r in res if r["result"] == "skipped"],
            "selftest_weak": [
                {"mutant": r["name"], "rc": r.get("rc")} for r in breaking
                if r["result"] == "WRONG"],
            "selftest_false_alarm": [
                {"mutant": r["name"], "rules": r.get("rules")}
                for r in neutral if r["result"] == "WRONG"],
            "detecting_rules": sorted({x for r in breaking
                                       for x in r.get("rules", [])}),
        }
    # 2. neutral whole-package variants
    neu = _load(st / "neutral.py", "verif_selftest_neutral")
    variants = {}
    for kind in ("reformat", "rename", "noop", "all"):
        r = neu.run_variant(kind, [prop])
        variants[kind] = r[prop][0]
    out["neutral_variants_exit_codes"] = variants
    # 3. seeded changes
    seedtest = _load(st / "seedtest.py", "verif_selftest_seedtest")
    seeded = []
    for d in sorted((VERIF / "seeded").glob("*/meta.json")):
        meta = json.loads(d.read_text())
        if meta.get("property") != prop and prop not in (
                meta.get("detected_by") or {}):
            continue
        r = seedtest.run(d.parent / "patch.diff", [prop])
        if "error" in r:
            seeded.append({"id": meta["id"], "error": r["error"][:120]})
            continue
        rc, rules, _o = r[prop]
        seeded.append({"id": meta["id"], "exit": rc, "rules": rules})
    out["seeded_changes_replayed"] = seeded
    # 4. sweeps
    prog = ctx.prog
    sweep = {"fs_enumerations": [], "append_or_update_opens": [],
             "mutable_defaults": [], "cache_decorators": [],
             "module_state_writes": []}
    for q in sorted(prog.funcs):
        f = prog.funcs[q]
        if isinstance(f.node, ast.Lambda):
            continue
        for c in fs_enumerations(prog, f):
            sweep["fs_enumerations"].append(f"{f.loc(c)} {q}")
        for c, m in open_calls(prog, f):
            if str(m)[:1] in ("a", "?") or str(m).startswith("r+"):
                sweep["append_or_update_opens"].append(f"{f.loc(c)} {q} {m}")
        for n, d in mutable_defaults(f):
            sweep["mutable_defaults"].append(f"{f.loc(d)} {q} {n}")
        for d in cache_decorators(f):
            sweep["cache_decorators"].append(f"{f.loc()} {q} @{d}")
        for g, n in module_state_writes(prog, f):
            sweep["module_state_writes"].append(f"{f.loc(n)} {q} {g}")
    out["package_sweeps"] = sweep
    ctx.extra["thorough"] = out
    ms = out.get("mutation_sensitivity", {})
    print(f"{prop}: thorough: mutants {ms.get('breaking_detected')}/"
          f"{ms.get('breaking')} breaking detected, "
          f"{ms.get('neutral_silent')}/{ms.get('neutral')} neutral silent; "
          f"neutral variants {variants}; seeded "
          f"{sum(1 for s in seeded if s.get('exit') == 1)}/{len(seeded)} "
          "reported")
