"""Regenerates MANIFEST.json from the rule modules present (run by hand)."""
import importlib, json, sys
sys.path.insert(0, ".")
props = [json.loads(l) for l in open("properties.jsonl")]
NA = {
 "C04": "Statement is an inequality on an expectation over a distribution of datasets (false-discovery proportion); no static argument in reach bounds a statistical expectation. Its mechanisms (+1 correction, held-out scoring, competition before estimation) are decided structurally under C01, C02 and C03.",
}
checks, na = [], []
for p in props:
    pid = p["id"]
    try:
        m = importlib.import_module(f"sa.rules.{pid.lower()}")
    except ModuleNotFoundError:
        na.append({"property_id": pid, "reason": NA.get(pid, "checker not built yet (static-analysis rule in DESIGN.md section 4); not claimed until its rule exists and is exact")})
        continue
    checks.append({
        "property_id": pid,
        "quick_cmd": f"./check {pid} --tier quick",
        "thorough_cmd": f"./check {pid} --tier thorough",
        "evidence_file": f"evidence/{pid}.json",
        "replay_cmd_template": f"./check {pid} --replay {{path}}",
        "engine": "sa",
        "level_claimed": {
            "category": "other",
            "text": "Static analysis of structural necessary conditions of the property on the current /repo source (every path / every flag case of the anchored functions): " + m.EXPLANATION[:600],
            "design_ref": f"DESIGN.md section 4, {pid}",
        },
        "level_note": "Decides only the structural clauses named in the evidence explanation, not the behaviour itself. Trusted base: CPython ast, the library summaries listed in evidence coverage.trusted_base, and the accepted-idiom tables in sa/rules.",
        "technique": "static analysis: " + m.TECHNIQUE,
    })
man = {
 "version": 1,
 "setup_cmd": "python3 -B -c \"import ast,sys; sys.path.insert(0,'.'); import sa.main\"",
 "hooks": {"guard": "MOKAPOT_VERIF", "enable": "none needed: the checkers read /repo's source, no instrumentation is compiled in", "baseline_off_cmd": "cd /repo && /venv/bin/python -m pytest -ra -q -p no:cacheprovider --timeout=900 --continue-on-collection-errors", "source_commits": [], "add_only": True},
 "engines": [{"name": "sa", "path": "sa/", "serves_properties": [c["property_id"] for c in checks], "kind_free_text": "purpose-built static analyser for mokapot (stdlib ast): program model + call graph, statement CFG with path queries, reaching definitions and term reconstruction, flag case-splitting, abstract interpretation over a row-alignment domain, linear normal forms, finite truth tables, effect/taint scans"}],
 "checks": checks,
 "not_applicable": na,
 "notes": "All checks are static: they parse /repo/mokapot/**/*.py on every run and never import or execute repository code. exit 0 = all obligations discharged (KNOWN-FINDING lines for recorded defects), exit 1 = VIOLATION, exit 2 = ANALYSIS-ERROR (anchor missing / idiom not recognised; fail closed).",
}
json.dump(man, open("MANIFEST.json", "w"), indent=1)
print(len(checks), "checks;", len(na), "not applicable")
